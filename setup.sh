#!/bin/bash
# Offline setup: make sure hypothesis is importable in /venv, install atheris for the fuzz tier,
# and pre-build the engine variants from /repo's working tree (cached by content hash).
set -e
cd /verif
export PIP_NO_INDEX=1
/venv/bin/python -c "import hypothesis" 2>/dev/null || /venv/bin/pip install --no-index --find-links /opt/veriftools/wheels hypothesis >/dev/null
mkdir -p .deps .build evidence replays
/venv/bin/python -c "import sys; sys.path.insert(0,'/verif/.deps'); import atheris" 2>/dev/null || \
  /venv/bin/pip install --no-index --find-links /opt/veriftools/wheels --target /verif/.deps atheris >/dev/null 2>&1 || echo "note: atheris not installable; fuzz tier will be skipped"
/venv/bin/python vlib/build.py plain
/venv/bin/python vlib/build.py asan
/venv/bin/python vlib/build.py fuzz || echo "note: fuzz build failed; coverage-guided phase will be skipped"
echo setup done
