import sys, pickle, copy; sys.path.insert(0, '/tmp/probe')
from gen import *
N = int(sys.argv[1]) if len(sys.argv) > 1 else 1000
S = dict(max_examples=N, deadline=None, database=None, suppress_health_check=list(HealthCheck))
opts = st.tuples(st.booleans(), st.sampled_from(['', 'vns', 'unknown']))
def run(f):
    try: f(); print(f.__name__, 'OK')
    except BaseException as e:
        import traceback; print(f.__name__, 'FAIL'); traceback.print_exc(limit=3)

@settings(**S)
@given(trees(), opts)
def c08(t, o):
    nil, ns = o
    spec = optree.tree_structure(t, none_is_leaf=nil, namespace=ns)
    ch = spec.children(); n = spec.num_children
    assert len(ch) == n == len(spec.entries())
    assert sum(c.num_leaves for c in ch) == (spec.num_leaves if not spec.is_leaf() else 0), (spec,)
    assert sum(c.num_nodes for c in ch) + 1 == spec.num_nodes
    for i in range(-n, n):
        assert spec.child(i) == ch[i] and spec.entry(i) == spec.entries()[i]
    for i in (n, -n - 1):
        for m in (spec.child, spec.entry):
            try: m(i); assert False, 'no IndexError'
            except IndexError: pass
    one = spec.one_level()
    if spec.is_leaf(): assert one is None
    else:
        assert one.num_leaves == n and one.num_nodes == n + 1 and one.is_one_level()
        # rebuild via transform of one-level: replace leaf i by child i
        it = iter(ch)
        rebuilt = one.transform(None, lambda leafspec: next(it))
        assert rebuilt == spec and rebuilt.paths() == spec.paths() and hash(rebuilt) == hash(spec), (spec, rebuilt)
        # rebuild via from_collection
        if spec.kind != optree.PyTreeKind.CUSTOM:
            coll = optree.tree_unflatten(one, ch)
            rb2 = optree.treespec_from_collection(coll, none_is_leaf=nil, namespace=ns)
            assert rb2 == spec and rb2.paths() == spec.paths(), (spec, rb2, coll)
    assert spec.transform(lambda s: s, lambda s: s) == spec
    assert spec.transform() == spec
    assert repr(spec).startswith('PyTreeSpec(')

@settings(**S)
@given(trees(6), trees(6), opts)
def compose(a, b, o):
    nil, ns = o
    sa = optree.tree_structure(a, none_is_leaf=nil, namespace=ns); sb = optree.tree_structure(b, none_is_leaf=nil, namespace=ns)
    c = sa.compose(sb)
    assert c.num_leaves == sa.num_leaves * sb.num_leaves
    expect = optree.tree_structure(optree.tree_unflatten(sa, [b] * sa.num_leaves), none_is_leaf=nil, namespace=ns)
    assert c == expect, (sa, sb, c, expect)
    assert c.paths() == expect.paths()
    assert sa.transform(None, lambda l: sb) == c
    if sa.num_leaves and sb.num_leaves:
        leaves = list(range(c.num_leaves))
        tree = optree.tree_unflatten(c, leaves)
        tr = optree.tree_transpose(sa, sb, tree)
        lt, st_ = optree.tree_flatten(tr, none_is_leaf=nil, namespace=ns)
        assert st_ == sb.compose(sa), (st_, sb.compose(sa))
        m, n = sa.num_leaves, sb.num_leaves
        assert lt == [i * n + j for j in range(n) for i in range(m)]
        back = optree.tree_transpose(sb, sa, tr)
        assert optree.tree_flatten(back, none_is_leaf=nil, namespace=ns) == (leaves, c)

@settings(**S)
@given(trees(), opts, st.integers(0, 5))
def pick(t, o, proto):
    nil, ns = o
    leaves, spec = optree.tree_flatten(t, none_is_leaf=nil, namespace=ns)
    try: data = pickle.dumps(spec, protocol=proto)
    except Exception as e:
        return
    s2 = pickle.loads(data)
    assert s2 == spec and hash(s2) == hash(spec) and repr(s2) == repr(spec) and s2.paths() == spec.paths() and s2.entries() == spec.entries()
    assert s2.accessors() == spec.accessors()
    a = optree.tree_unflatten(s2, leaves); b = optree.tree_unflatten(spec, leaves)
    assert optree.tree_flatten(a, none_is_leaf=nil, namespace=ns)[1] == spec
    assert copy.deepcopy(spec) == spec and copy.copy(spec) == spec

@settings(**S)
@given(trees(), opts)
def mapid(t, o):
    nil, ns = o
    calls = []
    def f(x, *r): calls.append((x,) + r); return x
    leaves = optree.tree_leaves(t, none_is_leaf=nil, namespace=ns)
    out = optree.tree_map(f, t, t, none_is_leaf=nil, namespace=ns)
    assert len(calls) == len(leaves) and all(c[0] is l and c[1] is l for c, l in zip(calls, leaves))
    l2, s2 = optree.tree_flatten(out, none_is_leaf=nil, namespace=ns)
    assert s2 == optree.tree_structure(t, none_is_leaf=nil, namespace=ns)
    assert optree.tree_map_(f, t, none_is_leaf=nil, namespace=ns) is t

for f in (c08, compose, pick, mapid): run(f)
