import sys
sys.path.insert(0, '/tmp/probe/deps'); sys.path.insert(0, '/tmp/scratch_fuzz/pkg')
import os, ctypes
import atheris
import optree
from collections import OrderedDict, deque
def build(fdp, depth=0):
    k = fdp.ConsumeIntInRange(0, 7 if depth < 5 else 1)
    if k == 0: return fdp.ConsumeIntInRange(0, 3)
    if k == 1: return None
    n = fdp.ConsumeIntInRange(0, 3)
    ch = [build(fdp, depth + 1) for _ in range(n)]
    if k == 2: return ch
    if k == 3: return tuple(ch)
    if k == 4: return {fdp.ConsumeIntInRange(0, 5) if fdp.ConsumeBool() else 'k%d' % i: c for i, c in enumerate(ch)}
    if k == 5: return OrderedDict((i, c) for i, c in enumerate(ch))
    if k == 6: return deque(ch)
    return (ch,)
def one(data):
    fdp = atheris.FuzzedDataProvider(data)
    t = build(fdp)
    leaves, spec = optree.tree_flatten(t)
    assert optree.tree_flatten(optree.tree_unflatten(spec, leaves)) == (leaves, spec)
    assert len(spec.paths()) == len(leaves)
atheris.Setup(sys.argv, one)
atheris.Fuzz()
