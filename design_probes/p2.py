import optree, sys
which = sys.argv[1]
class Trig:
    def __init__(s, fn): s.fn = fn
optree.register_pytree_node(Trig, lambda t: (t.fn() or (), None), lambda m, c: None, namespace='t')
if which == 'D1':
    D = {'a': None, 'b': 2, 'c': 3}
    D['a'] = Trig(lambda: D.pop('c') and ())
    print(optree.tree_flatten(D, namespace='t'))
if which == 'D2':
    D = {'a': None, 'b': 2, 'c': 3}
    D['a'] = Trig(lambda: D.pop('c') and ())
    print(list(optree.tree_iter(D, namespace='t')))
if which == 'L1':
    L = [None, 2, 3, 4, 5, 6, 7, 8, 9, 10]
    L[0] = Trig(lambda: L.clear())
    print(optree.tree_flatten(L, namespace='t'))
if which == 'L2':
    big = [object() for _ in range(1000)]
    L = [None] + big
    del big
    L[0] = Trig(lambda: L.__delitem__(slice(1, None)))
    print(len(optree.tree_flatten(L, namespace='t')[0]))
