import sys, gc, weakref
import optree
from collections import namedtuple, OrderedDict, deque
import optree.typing as ot
which = sys.argv[1]
if which == 'twin':
    NT = namedtuple('NT', 'a b')
    class OddFields(tuple):
        _fields = NT('x', 'y'); _make = classmethod(lambda c, it: c(it)); _asdict = lambda s: {}
    class StrSub(str): pass
    class F2(tuple): _fields = ('a', StrSub('b')); _make = classmethod(lambda c, it: c(it)); _asdict = lambda s: {}
    class NoMake(tuple): _fields = ('a',); _asdict = lambda s: {}
    class ListFields(tuple): _fields = ['a']; _make = classmethod(lambda c, it: c(it)); _asdict = lambda s: {}
    class NotTuple: _fields = ('a',); _make = classmethod(lambda c, it: c()); _asdict = lambda s: {}
    class BoolN(tuple): n_fields = True; n_sequence_fields = 1; n_unnamed_fields = 0
    for c in (NT, OddFields, F2, NoMake, ListFields, NotTuple, BoolN, int, 5, None, NT(1, 2)):
        py = [f.__python_implementation__(c) for f in (ot.is_namedtuple_class, ot.is_structseq_class, ot.is_namedtuple, ot.is_structseq)]
        cx = [f(c) for f in (ot.is_namedtuple_class, ot.is_structseq_class, ot.is_namedtuple, ot.is_structseq)]
        print(getattr(c, '__name__', c), py, cx, 'DIFF' if py != cx else '')
if which == 'cache':
    # history: thousands of transient classes
    bad = 0
    for rnd in range(6):
        classes = []
        for i in range(3000):
            if (i + rnd) % 2: c = namedtuple(f'T{i}', 'a b')
            else: c = type(f'P{i}', (tuple,), {})
            classes.append(c)
            if ot.is_namedtuple_class(c) != ot.is_namedtuple_class.__python_implementation__(c): bad += 1
            lv = optree.tree_leaves(c((1, 2)) if not hasattr(c, '_fields') else c(1, 2))
            exp = 2 if hasattr(c, '_fields') else 1
            if len(lv) != exp: bad += 1
        del classes, c; gc.collect()
    print('bad', bad)
if which == 'depth':
    sys.setrecursionlimit(100000)
    M = optree.MAX_RECURSION_DEPTH
    def nest(kind, d):
        x = 0
        for _ in range(d):
            x = {'list': [x], 'tuple': (x,), 'dict': {'k': x}, 'od': OrderedDict(k=x), 'deque': deque([x])}[kind] if kind != 'nt' else NT1(x)
        return x
    NT1 = namedtuple('NT1', 'a')
    for kind in ['list', 'tuple', 'dict', 'od', 'deque', 'nt']:
        for d in (M - 1, M, M + 1, M + 2):
            t = nest(kind, d); r = []
            for fn in (optree.tree_flatten, optree.tree_flatten_with_path, lambda t: list(optree.tree_iter(t))):
                try: fn(t); r.append('ok')
                except RecursionError: r.append('RE')
            print(kind, d, r, end=' | ')
            if r[0] == 'ok':
                l, s = optree.tree_flatten(t)
                ops = {'unflatten': lambda: s.unflatten(l), 'repr': lambda: repr(s), 'hash': lambda: hash(s), 'paths': lambda: s.paths(), 'acc': lambda: s.accessors()[0](t), 'eq': lambda: s == s, 'prefix': lambda: s.is_prefix(s), 'child': lambda: s.children(), 'map': lambda: optree.tree_map(lambda x: x, t), 'pe': lambda: optree.prefix_errors(t, t), 'bc': lambda: optree.tree_broadcast_common(t, t), 'pickle': lambda: __import__('pickle').loads(__import__('pickle').dumps(s)), 'compose': lambda: s.compose(s) if d < 10 else None, 'transform': lambda: s.transform(lambda x: x)}
                for n, op in ops.items():
                    try: op()
                    except BaseException as e: print(n, type(e).__name__, end=' ')
            print()
        del t
    l = []; l.append(l)
    for fn in (optree.tree_flatten, optree.tree_flatten_with_path, lambda t: list(optree.tree_iter(t))):
        try: fn(l); print('selfref ok?!')
        except RecursionError: print('selfref RE')
if which == 'alias':
    class Lf: pass
    lf = Lf(); wr = weakref.ref(lf)
    t = {'b': [lf, 1], 'a': (2, 3)}
    leaves, spec = optree.tree_flatten(t)
    e = spec.entries(); e.append('zzz'); p = spec.paths(); p.append(1); c = spec.children(); c.pop()
    print(spec.entries(), len(spec.paths()), len(spec.children()))
    st = spec.__getstate__(); st[0][-1][2].append('EVIL'); print('after getstate mutate:', spec, spec.entries())
    del t, leaves, lf; gc.collect(); print('leaf freed:', wr() is None)
