"""Scratch prototype: tree generator + reference model (NOT framework code)."""
import os, sys, time, collections, dataclasses
from collections import OrderedDict, defaultdict, deque, namedtuple, UserDict
import hypothesis
from hypothesis import strategies as st, given, settings, HealthCheck
import optree
from optree.registry import __GLOBAL_NAMESPACE as G

NT2 = namedtuple('NT2', 'a b'); NT0 = namedtuple('NT0', ''); NT1 = namedtuple('NT1', 'only')
class NTSub(NT2): pass
TS = os.terminal_size  # structseq 2 fields
ST = time.struct_time  # 9 fields

class Leaf:
    __slots__ = ('n', '__weakref__')
    def __init__(s, n): s.n = n
    def __repr__(s): return f'L{s.n}'
class ListSub(list): pass
class DictSub(dict): pass
class TupleSub(tuple): pass
class K:  # unsortable hashable key
    def __init__(s, n): s.n = n
    def __repr__(s): return f'K{s.n}'
class KO:  # sortable user key
    def __init__(s, n): s.n = n
    def __lt__(s, o): return s.n < o.n if isinstance(o, KO) else NotImplemented
    def __eq__(s, o): return isinstance(o, KO) and s.n == o.n
    def __hash__(s): return hash(('KO', s.n))
    def __repr__(s): return f'KO{s.n}'

# custom nodes
@optree.register_pytree_node_class(namespace=G)
class CG:  # global, no entries, supports __getitem__
    def __init__(s, *ch, tag=None): s.ch = list(ch); s.tag = tag
    def __getitem__(s, i): return s.ch[i]
    def tree_flatten(s): return tuple(s.ch), s.tag
    @classmethod
    def tree_unflatten(cls, tag, ch): return cls(*ch, tag=tag)
    def __repr__(s): return f'CG({s.ch},{s.tag})'
class CN:  # namespace-only, entries = attr names
    def __init__(s, x, y, meta=None): s.x, s.y, s.meta = x, y, meta
    def __repr__(s): return f'CN({s.x},{s.y},{s.meta})'
optree.register_pytree_node(CN, lambda o: ((o.x, o.y), o.meta, ('x', 'y')), lambda m, c: CN(c[0], c[1], m), path_entry_type=optree.GetAttrEntry, namespace='vns')
@optree.register_pytree_node_class(namespace='vns')
class CM(UserDict):
    TREE_PATH_ENTRY_TYPE = optree.MappingEntry
    def tree_flatten(s):
        ks = sorted(s.data, reverse=True, key=repr)
        return [s.data[k] for k in ks], ks, ks
    @classmethod
    def tree_unflatten(cls, md, ch): return cls(zip(md, ch))

_leaf_counter = [0]
def leaves():
    return st.one_of(st.integers(-3, 3), st.sampled_from(['s', 't']), st.builds(lambda n: Leaf(n), st.integers(0, 99)),
                     st.just(ListSub([1])), st.just(DictSub(a=1)), st.just(TupleSub((1, 2))), st.floats(allow_nan=False, width=16))
keys_sortable = st.one_of(st.integers(-2, 5), st.sampled_from(list('abcde')), st.floats(min_value=-2, max_value=2, allow_nan=False, width=16), st.tuples(st.integers(0, 2), st.integers(0, 2)), st.builds(KO, st.integers(0, 4)), st.just(None), st.booleans(), st.binary(max_size=1))
keys_any = st.one_of(keys_sortable, st.frozensets(st.integers(0, 2), max_size=2))

def keylists(): return st.lists(keys_any, max_size=4, unique_by=lambda k: (k,) if not isinstance(k, K) else id(k))

def mk_dict(kind):
    def build(items, factory, ops):
        d = {}
        for k, v in items: d[k] = v
        if kind == 'dict': out = dict(d)
        elif kind == 'od': out = OrderedDict(d)
        else: out = defaultdict(factory, d)
        return out
    return build

def trees(max_leaves=12):
    def extend(ch):
        items = st.lists(st.tuples(keys_any, ch), max_size=4)
        facts = st.sampled_from([None, int, list, dict])
        return st.one_of(
            st.lists(ch, max_size=4),
            st.lists(ch, max_size=4).map(tuple),
            st.builds(mk_dict('dict'), items, facts, st.none()),
            st.builds(mk_dict('od'), items, facts, st.none()),
            st.builds(mk_dict('dd'), items, facts, st.none()),
            st.tuples(st.lists(ch, max_size=3), st.sampled_from([None, 0, 1, 3])).map(lambda t: deque(t[0], maxlen=(None if t[1] is None else max(len(t[0]), len(t[0]) + t[1] - 1) if t[1] else len(t[0])))),
            st.builds(NT2, ch, ch), st.just(NT0()), st.builds(NT1, ch), st.builds(NTSub, ch, ch),
            st.builds(lambda a, b: TS((a, b)), ch, ch),
            st.lists(ch, min_size=9, max_size=9).map(ST),
            st.builds(lambda chs, tag: CG(*chs, tag=tag), st.lists(ch, max_size=3), st.sampled_from([None, 't', (1, 2)])),
            st.builds(CN, ch, ch, st.sampled_from([None, 'm', [1]])),
            st.lists(st.tuples(st.sampled_from(list('xyz')), ch), max_size=3).map(lambda it: CM(it)),
        )
    return st.recursive(st.one_of(leaves(), st.none()), extend, max_leaves=max_leaves)

# ---------------- reference model
BUILTIN = {tuple, list, dict, OrderedDict, defaultdict, deque}
def ref_sorted(keys):
    keys = list(keys)
    try: return sorted(keys)
    except TypeError:
        try: return sorted(keys, key=lambda k: (f'{k.__class__.__module__}.{k.__class__.__qualname__}', k))
        except TypeError: return keys

def is_nt(cls): return issubclass(cls, tuple) and isinstance(getattr(cls, '_fields', None), tuple) and all(type(f) is str for f in cls._fields) and callable(getattr(cls, '_make', None)) and callable(getattr(cls, '_asdict', None))
def is_ss(cls): return cls.__bases__ == (tuple,) and isinstance(getattr(cls, 'n_sequence_fields', None), int) and not (cls.__flags__ & (1 << 10))

class Ref:
    """reference flatten. registry: dict ns -> {type: (flatten, unflatten)} maintained by harness."""
    def __init__(s, registry, none_is_leaf=False, ns='', is_leaf=None, insertion=False):
        s.reg, s.nil, s.ns, s.pred, s.ins = registry, none_is_leaf, ns, is_leaf, insertion
    def lookup(s, t):
        if s.ns and (s.ns, t) in s.reg: return s.reg[(s.ns, t)]
        return s.reg.get(('', t))
    def one(s, x):
        """returns None if leaf else (kindname, children, entries, meta)"""
        if s.pred is not None and s.pred(x): return None
        t = type(x)
        if x is None: return None if s.nil else ('none', [], [], None)
        if t is tuple: return ('tuple', list(x), list(range(len(x))), None)
        if t is list: return ('list', list(x), list(range(len(x))), None)
        if t is deque: return ('deque', list(x), list(range(len(x))), x.maxlen)
        if t is OrderedDict: ks = list(x); return ('od', [x[k] for k in ks], ks, ks)
        if t is dict or t is defaultdict:
            ks = list(x) if s.ins else ref_sorted(x)
            return ('dict' if t is dict else 'dd', [x[k] for k in ks], ks, (ks, list(x), x.default_factory if t is defaultdict else None))
        r = s.lookup(t)
        if r is not None:
            out = tuple(r[0](x)); ch = list(out[0]); ent = list(out[2]) if len(out) == 3 and out[2] is not None else list(range(len(ch)))
            return ('custom', ch, ent, (t, out[1]))
        if is_ss(t): return ('ss', list(x), list(range(len(x))), t)
        if is_nt(t): return ('nt', list(x), list(range(len(x))), t)
        return None
    def flatten(s, x, path=()):
        o = s.one(x)
        if o is None: return [x], [path], '*'
        kind, ch, ent, meta = o
        leaves, paths, specs = [], [], []
        for c, e in zip(ch, ent):
            l, p, sp = s.flatten(c, path + (e,)); leaves += l; paths += p; specs.append(sp)
        return leaves, paths, (kind, repr_meta(meta), tuple(specs))
def repr_meta(m): return m
