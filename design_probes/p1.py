import optree, sys, warnings
from collections import namedtuple, OrderedDict
from optree.registry import __GLOBAL_NAMESPACE as G
which = sys.argv[1]
if which == 'A1':  # list cleared during traversal by is_leaf
    L = [1, 2, 3, 4, 5, 6, 7, 8]
    def pred(x):
        if x == 2: L.clear()
        return False
    print(optree.tree_flatten(L, is_leaf=pred))
if which == 'A2':  # dict key deleted during traversal
    D = {'a': 1, 'b': 2, 'c': 3}
    def pred(x):
        if x == 1: D.pop('c')
        return False
    print(optree.tree_flatten(D, is_leaf=pred))
if which == 'A3':  # list shrunk in iterator
    L = [[1, 2], [3, 4], [5, 6]]
    it = optree.tree_iter(L)
    print(next(it)); L.clear(); print(list(it))
if which == 'A4':
    L = [1, 2, 3, 4, 5, 6, 7, 8]
    def pred(x):
        if x == 2: del L[3:]
        return False
    print(optree.tree_flatten_with_path(L, is_leaf=pred))
if which == 'B':
    NT = namedtuple('NT', 'a b')
    warnings.simplefilter('error')
    try:
        optree.register_pytree_node(NT, lambda x: (tuple(x), None), lambda m, c: NT(*c), namespace='nsA')
    except BaseException as e:
        print('raised', type(e), e)
    warnings.simplefilter('ignore')
    print('mirror:', optree.register_pytree_node.get(NT, namespace='nsA'))
    print('engine:', optree.tree_flatten(NT(1, 2), namespace='nsA'))
    try:
        optree.register_pytree_node(NT, lambda x: (tuple(x), None), lambda m, c: NT(*c), namespace='nsA')
        print('second register ok')
    except BaseException as e:
        print('second raised', type(e), e)
if which == 'C':
    class V:
        def __init__(s, x, y): s.x, s.y = x, y
    optree.register_pytree_node(V, lambda v: ((v.x, v.y), None, ('x', 'y')), lambda m, c: V(*c), path_entry_type=optree.GetAttrEntry, namespace=G)
    a = optree.tree_structure(V(1, (2, 3))); b = optree.tree_structure(V([1, 2], 3))
    c = a.broadcast_to_common_suffix(b)
    print(a.paths(), b.paths(), c, c.paths(), c.entries())
    print(optree.tree_broadcast_map_with_path(lambda p, x, y: p, V(1, (2, 3)), V([1, 2], 3)).__dict__)
if which == 'E':
    print(optree.prefix_errors({1: 0, 'a': 0, 2.5: 0}, {2.5: 1}))
if which == 'F':
    class M: pass
    for name, fl in [('entries_short', lambda m: ((1, 2), None, ('a',))), ('entries_long', lambda m: ((1, 2), None, ('a','b','c'))), ('one', lambda m: ((1,2),)), ('four', lambda m: ((1,),None,None,None)), ('nonit_children', lambda m: (5, None)), ('nonit_entries', lambda m: ((1,), None, 5)), ('nontuple', lambda m: 7)]:
        class M: pass
        optree.register_pytree_node(M, fl, lambda md, c: M(), namespace='f')
        res = []
        for fn in (optree.tree_flatten, optree.tree_flatten_with_path, lambda t, **k: list(optree.tree_iter(t, **k)), optree.tree_leaves, optree.tree_paths):
            try: fn([0, M()], namespace='f'); res.append('ok')
            except Exception as e: res.append(type(e).__name__)
        try: optree.tree_flatten_one_level(M(), namespace='f'); res.append('ok')
        except Exception as e: res.append('1lvl:'+type(e).__name__)
        print(name, res)
