import sys, time
which = sys.argv[1]
import optree
if which == 'dc':
    import dataclasses, optree.dataclasses as odc
    @odc.dataclass(namespace='n')
    class Base:
        a: int
        b: int = odc.field(default=2, pytree_node=False)
        c: list = odc.field(default_factory=list)
    @odc.dataclass(namespace='n', kw_only=True, frozen=False)
    class Der(Base):
        d: int = 4
        e: int = odc.field(default=5, init=False, pytree_node=False)
        def __post_init__(s): s.e = s.a * 10
    x = Der(1, 7, [3], d=9)
    acc, lv, sp = optree.tree_flatten_with_accessor(x, namespace='n')
    print(lv, sp, [a.codify('x') for a in acc], sp.entries())
    print(optree.tree_unflatten(sp, lv), optree.tree_leaves(x), optree.tree_leaves(x, namespace='m'))
    @odc.dataclass(namespace='n', slots=True, frozen=True)
    class S:
        p: int
        q: int = odc.field(default=0, pytree_node=False)
    s = S(1, 2); print(optree.tree_flatten(s, namespace='n'), optree.tree_map(lambda v: v + 1, s, namespace='n'))
    for bad in (lambda: odc.field(init=False), lambda: odc.dataclass(S, namespace='n'), lambda: odc.dataclass(namespace='')(type('Z', (), {}))):
        try: bad(); print('no raise')
        except Exception as e: print(type(e).__name__, str(e)[:70])
if which == 'np':
    import numpy as np
    from optree.integration.numpy import tree_ravel
    t = {'a': np.zeros((0, 3), np.int8), 'b': np.array(5, np.float16), 'c': [np.ones((2, 0, 1), bool), np.arange(6, dtype=np.uint8).reshape(1, 2, 3)], 'd': np.array([1 + 2j], np.complex64)}
    flat, un = tree_ravel(t); print(flat, flat.dtype); r = un(flat); print({k: (getattr(v, 'dtype', None), getattr(v, 'shape', None)) for k, v in r.items() if k != 'c'}, [(v.dtype, v.shape) for v in r['c']])
    print(tree_ravel([])[0], tree_ravel({'a': np.zeros((0,))})[0].shape)
    for bad in (np.zeros(3), flat.astype(np.complex128), flat.reshape(1, -1)):
        try: un(bad); print('no raise', bad.dtype, bad.shape)
        except ValueError as e: print('VE', str(e)[:60])
if which == 'torch':
    t0 = time.time(); import torch; from optree.integration.torch import tree_ravel; print('import', time.time() - t0)
    t = {'a': torch.zeros((0, 3), dtype=torch.int8), 'b': torch.tensor(5, dtype=torch.float16), 'c': [torch.ones((2, 0, 1), dtype=torch.bool), torch.arange(6, dtype=torch.uint8).reshape(1, 2, 3)]}
    flat, un = tree_ravel(t); print(flat, flat.dtype); r = un(flat); print(r['a'].shape, r['b'].shape, r['b'].dtype, [(v.dtype, tuple(v.shape)) for v in r['c']])
    print(tree_ravel([])[0])
if which == 'jax':
    t0 = time.time(); import jax, jax.numpy as jnp; from optree.integration.jax import tree_ravel; print('import', time.time() - t0)
    t = {'a': jnp.zeros((0, 3), jnp.int8), 'b': jnp.array(5, jnp.float16), 'c': [jnp.ones((2, 0, 1), bool), jnp.arange(6, dtype=jnp.uint8).reshape(1, 2, 3)]}
    flat, un = tree_ravel(t); print(flat, flat.dtype); r = un(flat); print(r['a'].shape, r['b'].shape, r['b'].dtype, [(v.dtype, tuple(v.shape)) for v in r['c']])
    print(tree_ravel([])[0])
