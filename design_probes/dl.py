import threading, warnings, sys, time
import optree
from collections import namedtuple
NT = namedtuple('NT', 'a b')
inside = threading.Event(); go = threading.Event()
def hook(message, category, filename, lineno, file=None, line=None):
    inside.set()
    go.wait(5)   # park here: releases the GIL
warnings.showwarning = hook
warnings.simplefilter('always')
def A():
    optree.register_pytree_node(NT, lambda x: (tuple(x), None), lambda m, c: NT(*c), namespace='nsA')
    print('A done', flush=True)
def B():
    print('B start', flush=True)
    print('B result', optree.tree_flatten([1, (2, 3)]), flush=True)
ta = threading.Thread(target=A); ta.start()
inside.wait()
tb = threading.Thread(target=B); tb.start()
tb.join(3)
print('B alive after 3s:', tb.is_alive(), flush=True)
go.set()
ta.join(); tb.join()
print('finished')
