import sys; sys.path.insert(0, '/tmp/probe')
from gen import *
REG = {('', CG): (lambda o: o.tree_flatten(), None), ('vns', CN): (lambda o: ((o.x, o.y), o.meta, ('x', 'y')), None), ('vns', CM): (lambda o: o.tree_flatten(), None)}
from optree.functools import partial as opartial
stats = collections.Counter()
fails = []
@settings(max_examples=int(sys.argv[1]) if len(sys.argv) > 1 else 2000, deadline=None, database=None, suppress_health_check=list(HealthCheck))
@given(trees(), st.booleans(), st.sampled_from(['', 'vns', 'unknown']))
def test(t, nil, ns):
    ref = Ref(REG, nil, ns)
    rl, rp, rs = ref.flatten(t)
    leaves, spec = optree.tree_flatten(t, none_is_leaf=nil, namespace=ns)
    stats['n'] += 1; stats['leaves>2'] += len(rl) > 2
    assert len(leaves) == len(rl) and all(a is b for a, b in zip(leaves, rl)), ('leaves', t, leaves, rl)
    paths = optree.tree_paths(t, none_is_leaf=nil, namespace=ns)
    assert [tuple(p) for p in paths] == rp or repr(paths) == repr(rp), ('paths', t, paths, rp)
    assert spec.paths() == paths
    it = list(optree.tree_iter(t, none_is_leaf=nil, namespace=ns))
    assert len(it) == len(rl) and all(a is b for a, b in zip(it, rl))
    back = optree.tree_unflatten(spec, leaves)
    l2, s2 = optree.tree_flatten(back, none_is_leaf=nil, namespace=ns)
    assert s2 == spec and all(a is b for a, b in zip(l2, leaves)), ('rt', t, back)
    acc = spec.accessors()
    for a, l in zip(acc, leaves):
        assert a(t) is l, ('acc', t, a)
try:
    test()
except Exception as e:
    import traceback; traceback.print_exc()
print(stats)
