import sys; sys.path.insert(0, '/tmp/probe')
from gen import *
import probe_c07 as P7
N = int(sys.argv[1]) if len(sys.argv) > 1 else 1000
S = dict(max_examples=N, deadline=None, database=None, suppress_health_check=list(HealthCheck))
REG = P7.REG; DICTS = P7.DICTS; keys_of = P7.keys_of
class Conflict(Exception): pass
def lub(a, b):
    if a == '*': return b
    if b == '*': return a
    ka, ma, ca = a; kb, mb, cb = b
    if ka in DICTS:
        if kb not in DICTS: raise Conflict
        A, B = keys_of(ka, ma), keys_of(kb, mb)
        if len(A) != len(B) or set(A) != set(B): raise Conflict
        pos = {k: i for i, k in enumerate(B)}
        return (ka, ma, tuple(lub(c, cb[pos[k]]) for k, c in zip(A, ca)))
    if ka != kb or len(ca) != len(cb): raise Conflict
    if ka in ('nt', 'ss') and ma is not mb: raise Conflict
    if ka == 'custom' and (ma[0] is not mb[0] or ma[1] != mb[1]): raise Conflict
    return (ka, ma, tuple(lub(x, y) for x, y in zip(ca, cb)))
def nleaves(m): return 1 if m == '*' else sum(nleaves(c) for c in m[2])
def shape(m):
    if m == '*': return '*'
    if m[0] in DICTS: return ('D', frozenset(zip(map(repr, keys_of(m[0], m[1])), (shape(c) for c in m[2]))))
    return (m[0], tuple(shape(c) for c in m[2]))
def spec_shape(s):
    if s.is_leaf(): return '*'
    k = s.kind.name
    kind = {'TUPLE': 'tuple', 'LIST': 'list', 'DICT': 'D', 'ORDEREDDICT': 'D', 'DEFAULTDICT': 'D', 'DEQUE': 'deque', 'NAMEDTUPLE': 'nt', 'STRUCTSEQUENCE': 'ss', 'CUSTOM': 'custom', 'NONE': 'none'}[k]
    if kind == 'D': return ('D', frozenset(zip(map(repr, s.entries()), (spec_shape(c) for c in s.children()))))
    return (kind, tuple(spec_shape(c) for c in s.children()))
stats = collections.Counter()
@st.composite
def pairs2(draw):
    a, b, mode = draw(P7.pairs())
    if draw(st.booleans()):
        a2, c, mode2 = draw(P7.pairs.__wrapped__(draw)) if False else (None, None, None)
    return a, b, mode
@settings(**S)
@given(P7.pairs(), P7.pairs(), st.booleans(), st.sampled_from(['', 'vns']), st.booleans())
def c09(p, q, nil, ns, overlap):
    a, b, mode = p
    if overlap and p[2] == 'suffix':  # two different suffixes of same base? approximate: use b and q[1]
        pass
    ref = Ref(REG, nil, ns)
    ma = ref.flatten(a)[2]; mb = ref.flatten(b)[2]
    sa = optree.tree_structure(a, none_is_leaf=nil, namespace=ns); sb = optree.tree_structure(b, none_is_leaf=nil, namespace=ns)
    try: m = lub(ma, mb); conflict = False
    except Conflict: conflict = True
    stats[mode, conflict] += 1
    try: c = sa.broadcast_to_common_suffix(sb); got_conflict = False
    except ValueError: got_conflict = True
    assert conflict == got_conflict, (a, b, conflict)
    try:
        ra, rb = optree.tree_broadcast_common(a, b, none_is_leaf=nil, namespace=ns); tb_conf = False
    except ValueError: tb_conf = True
    assert tb_conf == conflict, ('tbc', a, b)
    if conflict: return
    assert c.num_leaves == nleaves(m) and spec_shape(c) == shape(m), (a, b, c, m)
    assert sa.is_prefix(c) and sb.is_prefix(c)
    sra = optree.tree_structure(ra, none_is_leaf=nil, namespace=ns); srb = optree.tree_structure(rb, none_is_leaf=nil, namespace=ns)
    assert spec_shape(sra) == spec_shape(srb) == shape(m)
    # leaves replicate
    la = optree.tree_leaves(a, none_is_leaf=nil, namespace=ns)
    pa = sa.paths(); pra = sra.paths(); lra = optree.tree_leaves(ra, none_is_leaf=nil, namespace=ns)
    if c.paths() != optree.tree_structure(optree.tree_unflatten(c, range(c.num_leaves)), none_is_leaf=nil, namespace=ns).paths(): stats['paths_lost'] += 1
    # idempotent
    ra2, rb2 = optree.tree_broadcast_common(ra, rb, none_is_leaf=nil, namespace=ns)
    assert optree.tree_structure(ra2, none_is_leaf=nil, namespace=ns) == sra
    # map
    out = optree.tree_broadcast_map(lambda x, y: (x, y), a, b, none_is_leaf=nil, namespace=ns)
    exp = optree.tree_map(lambda x, y: (x, y), ra, rb, none_is_leaf=nil, namespace=ns)
    assert optree.tree_leaves(out, none_is_leaf=nil, namespace=ns) == optree.tree_leaves(exp, none_is_leaf=nil, namespace=ns)
try: c09(); print('OK')
except BaseException: import traceback; traceback.print_exc()
print(stats)
