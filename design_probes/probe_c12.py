import sys, itertools, warnings, os, collections
import optree
from collections import namedtuple
from optree.registry import __GLOBAL_NAMESPACE as G
NSS = [G, 'a', 'b']
def fresh_types():
    class Plain:
        def __init__(s): s.v = [1, 2]
    class Sub(Plain): pass
    NTc = namedtuple('NTc', 'p q')
    return {'plain': Plain, 'sub': Sub, 'nt': NTc}
def inst(name, T): return T(1, 2) if name == 'nt' else T()
OPS = [('reg', t, n) for t in ('plain', 'sub', 'nt') for n in range(3)] + [('unreg', t, n) for t in ('plain', 'nt') for n in range(3)] + [('reg', 'list', 0), ('unreg', 'list', 1), ('reg', 'plain', 'EMPTY'), ('reg', 'nonclass', 1)]
stats = collections.Counter(); bad = []
def run(history, werr):
    types = fresh_types(); model = {}; regid = [0]
    for step, (op, tname, n) in enumerate(history):
        ns = '' if n == 'EMPTY' else NSS[n]
        T = {'list': list, 'nonclass': 5}.get(tname) or types[tname]
        key = ('' if ns is G else ns, tname)
        warnings.simplefilter('error' if werr else 'ignore')
        try:
            if op == 'reg':
                regid[0] += 1; rid = regid[0]
                optree.register_pytree_node(T, (lambda rid: lambda o: ((rid,), 'meta%d' % rid))(rid), lambda m, c: None, namespace=ns)
                ok = True
            else:
                optree.unregister_pytree_node(T, namespace=ns); ok = True
        except (ValueError, TypeError, UserWarning) as e:
            ok = False; stats['raise_' + type(e).__name__] += 1
        except BaseException as e:
            ok = False; bad.append((history, werr, step, 'exc', type(e).__name__)); stats['raise_other'] += 1
        warnings.simplefilter('ignore')
        expect_ok = tname not in ('list', 'nonclass') and n != 'EMPTY' and ((key not in model) if op == 'reg' else (key in model))
        if werr and op == 'reg' and tname == 'nt' and expect_ok: expect_ok = None  # either atomic failure or success
        if expect_ok is not None and ok != expect_ok: bad.append((history, werr, step, 'outcome', ok, expect_ok))
        if ok:
            if op == 'reg': model[key] = rid
            else: model.pop(key)
        # observe
        for tn, TT in types.items():
            for obs in ('', 'a', 'b', 'zz'):
                exp = model.get((obs, tn), model.get(('', tn)))
                for nil in (False, True):
                    leaves, spec = optree.tree_flatten(inst(tn, TT), none_is_leaf=nil, namespace=obs)
                    got = leaves[0] if spec.kind == optree.PyTreeKind.CUSTOM else None
                    if got != exp: bad.append((history, werr, step, 'engine', tn, obs, got, exp))
                h = optree.register_pytree_node.get(TT, namespace=obs)
                gotm = None
                if h is not None and h.kind == optree.PyTreeKind.CUSTOM: gotm = h.flatten_func(inst(tn, TT))[0][0]
                if gotm != exp: bad.append((history, werr, step, 'mirror', tn, obs, gotm, exp))
    # cleanup
    for (ns, tn) in list(model):
        optree.unregister_pytree_node(types[tn], namespace=ns or G)
    stats['hist'] += 1
L = int(sys.argv[1])
for werr in (False, True):
    for h in itertools.product(OPS, repeat=L): run(h, werr)
print(stats); print(len(bad)); 
seen = set()
for b in bad:
    k = (b[1], b[3])
    if k not in seen: seen.add(k); print(b)
