import sys, pickle; sys.path.insert(0, '/tmp/probe')
from gen import *
import probe_c07 as P7
N = int(sys.argv[1]) if len(sys.argv) > 1 else 1000
S = dict(max_examples=N, deadline=None, database=None, suppress_health_check=list(HealthCheck))
REG = P7.REG; DICTS = P7.DICTS
def meq(a, b):
    if a == '*' or b == '*': return a == b
    ka, ma, ca = a; kb, mb, cb = b
    if ka != kb or len(ca) != len(cb): return False
    if ka in ('dict', 'dd'):
        if ma[0] != mb[0] or (ka == 'dd' and ma[2] != mb[2]): return False
    elif ka == 'od':
        if ma != mb: return False
    elif ka == 'deque':
        if ma != mb: return False
    elif ka in ('nt', 'ss'):
        if ma is not mb: return False
    elif ka == 'custom':
        if ma[0] is not mb[0] or ma[1] != mb[1]: return False
    return all(meq(x, y) for x, y in zip(ca, cb))
stats = collections.Counter()
@settings(**S)
@given(P7.pairs(), st.booleans(), st.booleans(), st.sampled_from(['', 'vns']), st.sampled_from(['', 'vns', 'other']))
def c06(p, nil_a, nil_b, ns_a, ns_b):
    a, b, mode = p
    ma = Ref(REG, nil_a, ns_a).flatten(a)[2]; mb = Ref(REG, nil_b, ns_b).flatten(b)[2]
    sa = optree.tree_structure(a, none_is_leaf=nil_a, namespace=ns_a); sb = optree.tree_structure(b, none_is_leaf=nil_b, namespace=ns_b)
    compat = not sa.namespace or not sb.namespace or sa.namespace == sb.namespace
    exp = nil_a == nil_b and compat and meq(ma, mb)
    stats[mode, exp] += 1
    got = sa == sb
    assert got == exp == (sb == sa) == (not (sa != sb)), (a, b, nil_a, nil_b, ns_a, ns_b, got, exp)
    assert sa == sa and hash(sa) == hash(sa)
    if got and hash(sa) != hash(sb):
        stats['hash_mismatch', sa.namespace, sb.namespace] += 1
    s2 = pickle.loads(pickle.dumps(sa)); assert s2 == sa and hash(s2) == hash(sa)
try: c06(); print('OK')
except BaseException: import traceback; traceback.print_exc()
print(stats)
