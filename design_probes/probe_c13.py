import sys, itertools, collections, contextlib
import optree
from collections import OrderedDict, defaultdict
from optree.registry import __GLOBAL_NAMESPACE as G
NS = {'g': G, 'a': 'a', 'b': 'b'}
def mk():
    d = {}; d['b'] = 1; d['a'] = 2; d['c'] = 0
    dd = defaultdict(int); dd['z'] = 1; dd['y'] = 2
    return d, dd, OrderedDict([('q', 1), ('p', 2)])
def observe():
    out = {}
    d, dd, od = mk()
    for ns in ('', 'a', 'b', 'c'):
        r = []
        for t in (d, dd, od, [d, (dd,)]):
            l1 = optree.tree_leaves(t, namespace=ns); l2 = optree.tree_flatten_with_path(t, namespace=ns)[1]; l3 = list(optree.tree_iter(t, namespace=ns))
            assert l1 == l2 == l3, (ns, t, l1, l2, l3)
            r.append(tuple(l1))
            assert optree.tree_unflatten(*optree.tree_flatten(t, namespace=ns)[::-1]) == t
        leaf = optree.treespec_leaf()
        r.append(tuple(optree.treespec_dict({'b': leaf, 'a': leaf}, namespace=ns).entries()))
        r.append(tuple(optree.treespec_from_collection({'b': leaf, 'a': leaf}, namespace=ns).entries()))
        r.append(optree.register_pytree_node.get(dict, namespace=ns).flatten_func({'b': 1, 'a': 2})[0])
        out[ns] = tuple(r)
    return out
def expected(modes):  # modes: set of ns strings ('' for global)
    out = {}
    for ns in ('', 'a', 'b', 'c'):
        ins = ns in modes or '' in modes
        out[ns] = ((1, 2, 0) if ins else (2, 1, 0), (1, 2) if ins else (2, 1), (1, 2), ((1, 2, 0) if ins else (2, 1, 0)) + ((1, 2) if ins else (2, 1)),
                   ('b', 'a') if ins else ('a', 'b'), ('b', 'a') if ins else ('a', 'b'), (1, 2) if ins else (2, 1))
    return out
class Boom(Exception): pass
stats = collections.Counter(); bad = []
def explore(depth, modes, trail):
    obs = observe()
    if obs != expected(modes): bad.append((trail, sorted(modes), {k: (obs[k], expected(modes)[k]) for k in obs if obs[k] != expected(modes)[k]}))
    stats['obs'] += 1
    if depth == 0: return
    for nsk, mode, how in itertools.product(NS, (True, False), ('exit', 'raise')):
        key = '' if nsk == 'g' else nsk
        new = set(modes); (new.add if mode else new.discard)(key)
        try:
            with optree.dict_insertion_ordered(mode, namespace=NS[nsk]):
                explore(depth - 1, new, trail + [(nsk, mode, how)])
                if how == 'raise': raise Boom
        except Boom: pass
        after = observe()
        if after != expected(modes): bad.append((trail + [(nsk, mode, how, 'after')], sorted(modes)))
explore(int(sys.argv[1]), set(), [])
print(stats, len(bad)); print(bad[:2])
