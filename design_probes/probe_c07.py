import sys; sys.path.insert(0, '/tmp/probe')
from gen import *
N = int(sys.argv[1]) if len(sys.argv) > 1 else 1000
S = dict(max_examples=N, deadline=None, database=None, suppress_health_check=list(HealthCheck))
REG = {('', CG): (lambda o: o.tree_flatten(), None), ('vns', CN): (lambda o: ((o.x, o.y), o.meta, ('x', 'y')), None), ('vns', CM): (lambda o: o.tree_flatten(), None)}
DICTS = {'dict', 'od', 'dd'}
def keys_of(kind, meta): return meta if kind == 'od' else meta[0]
def ref_prefix(a, b):
    if a == '*': return True
    if b == '*': return False
    ka, ma, ca = a; kb, mb, cb = b
    if ka in DICTS:
        if kb not in DICTS: return False
        A, B = keys_of(ka, ma), keys_of(kb, mb)
        if len(A) != len(B) or set(map(idk, A)) != set(map(idk, B)): return False
        pos = {idk(k): i for i, k in enumerate(B)}
        return all(ref_prefix(c, cb[pos[idk(k)]]) for k, c in zip(A, ca))
    if ka != kb or len(ca) != len(cb): return False
    if ka == 'deque': pass
    elif ka in ('nt', 'ss'):
        if ma is not mb: return False
    elif ka == 'custom':
        if ma[0] is not mb[0] or ma[1] != mb[1]: return False
    return all(ref_prefix(x, y) for x, y in zip(ca, cb))
def idk(k): return k
stats = collections.Counter()
# derive: substitute leaves of a by subtrees -> suffix; or edit
@st.composite
def pairs(draw):
    a = draw(trees(6))
    mode = draw(st.sampled_from(['same', 'suffix', 'unrelated', 'reorder']))
    if mode == 'unrelated': return a, draw(trees(6)), mode
    subs = draw(st.lists(trees(3), min_size=0, max_size=6))
    it = iter(subs)
    def rebuild(x):
        t = type(x)
        if t in (list, tuple): return t(rebuild(c) for c in x)
        if t is deque: return deque((rebuild(c) for c in x), maxlen=None)
        if t in (dict, OrderedDict, defaultdict):
            items = [(k, rebuild(v)) for k, v in x.items()]
            if mode == 'reorder': items = items[::-1]
            newt = draw(st.sampled_from([dict, OrderedDict, lambda it: defaultdict(list, it)])) if mode == 'reorder' else (t if t is not defaultdict else (lambda it: defaultdict(x.default_factory, it)))
            return newt(items)
        if t in (NT2, NT1, NTSub): return t(*map(rebuild, x))
        if t in (TS, ST): return t(tuple(map(rebuild, x)))
        if t is CG: return CG(*map(rebuild, x.ch), tag=x.tag)
        if t is CN: return CN(rebuild(x.x), rebuild(x.y), x.meta)
        if t is CM: return CM((k, rebuild(v)) for k, v in x.items())
        if x is None or t is NT0: return x
        if mode == 'same': return x
        return next(it, x)
    return a, rebuild(a), mode
@settings(**S)
@given(pairs(), st.booleans(), st.sampled_from(['', 'vns']))
def c07(p, nil, ns):
    a, b, mode = p
    ref = Ref(REG, nil, ns)
    ma = ref.flatten(a)[2]; mb = ref.flatten(b)[2]
    expect = ref_prefix(ma, mb)
    sa = optree.tree_structure(a, none_is_leaf=nil, namespace=ns); sb = optree.tree_structure(b, none_is_leaf=nil, namespace=ns)
    stats[mode, expect] += 1
    got_p = sa.is_prefix(sb)
    try: fut = sa.flatten_up_to(b); got_f = True
    except ValueError: got_f = False
    try:
        pe = optree.prefix_errors(a, b, none_is_leaf=nil, namespace=ns); got_e = not pe
    except TypeError as e:
        assert 'not supported between' in str(e); stats['known_pe_sort'] += 1; got_e = False
    assert got_p == got_f == got_e == expect, (a, b, expect, got_p, got_f, got_e)
    assert (sa <= sb) == expect and (sb >= sa) == expect and sb.is_suffix(sa) == expect
    if expect:
        # partition of leaves
        allb = optree.tree_leaves(b, none_is_leaf=nil, namespace=ns)
        parts = [l for sub in fut for l in optree.tree_leaves(sub, none_is_leaf=nil, namespace=ns)]
        pa = sa.paths()
        # reorder-insensitive: compare as identity multisets... strict order only when key order equal
        assert sorted(map(id, parts)) == sorted(map(id, allb))
        # common suffix: since a<=b, lub == b structure (up to dict kind/order)
        c = sa.broadcast_to_common_suffix(sb)
        assert c.num_leaves == sb.num_leaves and sa.is_prefix(c) and sb.is_prefix(c) and c.is_prefix(sb), (a, b, c)
if __name__ == "__main__":
  try: c07(); print("OK")
  except BaseException: import traceback; traceback.print_exc(limit=4)
  print(stats)
