import sys, gc; sys.path.insert(0, '/tmp/probe')
from gen import *
class Boom(Exception): pass
class Faulty:
    """wrap callables; raise at the k-th invocation overall"""
    def __init__(s): s.count = 0; s.k = None; s.exc = None
    def tick(s):
        s.count += 1
        if s.k is not None and s.count == s.k:
            s.exc = Boom(s.k); raise s.exc
F = Faulty()
class FN:
    def __init__(s, *ch, meta=None): s.ch = ch; s.meta = meta
optree.register_pytree_node(FN, lambda o: (F.tick(), (o.ch, o.meta))[1], lambda m, c: (F.tick(), FN(*c, meta=m))[1], namespace='f')
def pred(x): F.tick(); return False
def fmap(x, *r): F.tick(); return x
def collect(tree):
    objs = []
    def walk(x):
        objs.append(x)
        if isinstance(x, (list, tuple, deque)): [walk(c) for c in x]
        elif isinstance(x, dict): [walk(c) for c in x.values()]
        elif isinstance(x, FN): [walk(c) for c in x.ch]
    walk(tree); return objs
def mk():
    return [Leaf(1), (Leaf(2), FN(Leaf(3), {'a': Leaf(4), 'b': FN(Leaf(5), meta='m')}), None), deque([Leaf(6)]), OrderedDict(x=Leaf(7))]
OPS = {
 'flatten': lambda t: optree.tree_flatten(t, is_leaf=pred, namespace='f'),
 'flatten_with_path': lambda t: optree.tree_flatten_with_path(t, is_leaf=pred, namespace='f'),
 'iter': lambda t: list(optree.tree_iter(t, is_leaf=pred, namespace='f')),
 'map': lambda t: optree.tree_map(fmap, t, t, is_leaf=pred, namespace='f'),
 'map_with_path': lambda t: optree.tree_map_with_path(lambda p, x: fmap(x), t, namespace='f'),
 'roundtrip': lambda t: optree.tree_unflatten(*optree.tree_flatten(t, namespace='f')[::-1]),
 'broadcast_common': lambda t: optree.tree_broadcast_common(t, t, namespace='f'),
 'prefix_errors': lambda t: optree.prefix_errors(t, t, namespace='f'),
 'flatten_up_to': lambda t: optree.tree_structure(t, namespace='f').flatten_up_to(t),
 'traverse': lambda t: optree.tree_structure(t, namespace='f').traverse(optree.tree_leaves(t, namespace='f'), lambda n: (F.tick(), n)[1], lambda l: (F.tick(), l)[1]),
 'walk': lambda t: optree.tree_structure(t, namespace='f').walk(optree.tree_leaves(t, namespace='f'), lambda ty, d, c: (F.tick(), c)[1], lambda l: (F.tick(), l)[1]),
}
def rc(objs): gc.collect(); return [sys.getrefcount(o) for o in objs]
for name, op in OPS.items():
    t = mk(); objs = collect(t)
    F.count = 0; F.k = None; op(t); K = F.count
    bad = []
    for k in range(1, K + 1):
        before = rc(objs)
        F.count = 0; F.k = k; F.exc = None
        res = None
        try: res = op(t); bad.append((k, 'no raise'))
        except Boom as e:
            if e is not F.exc: bad.append((k, 'identity'))
            e = None
        except BaseException as e:
            bad.append((k, type(e).__name__, str(e)[:60])); e = None
        F.exc = None; res = None
        after = rc(objs)
        if before != after: bad.append((k, 'refcount', [(i, b, a) for i, (b, a) in enumerate(zip(before, after)) if a != b]))
    print(name, 'K=', K, 'bad=', bad[:4])
