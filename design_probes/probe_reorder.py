import sys; sys.path.insert(0, '/tmp/probe')
from gen import *
leaf = st.integers(0, 3)
def dtree(depth):
    if depth == 0: return st.one_of(leaf, st.lists(leaf, max_size=3), st.tuples(leaf, leaf))
    return st.one_of(dtree(0), st.dictionaries(st.sampled_from(list('abcd')), dtree(depth - 1), min_size=1, max_size=3))
@st.composite
def variant(draw, t, grow):
    if isinstance(t, dict):
        items = [(k, draw(variant(v, grow))) for k, v in draw(st.permutations(list(t.items())))]
        kind = draw(st.sampled_from(['d', 'o', 'dd']))
        return dict(items) if kind == 'd' else OrderedDict(items) if kind == 'o' else defaultdict(int, items)
    if isinstance(t, (list, tuple)): return type(t)(draw(variant(c, grow)) for c in t)
    return draw(st.one_of(st.just(t), dtree(0))) if grow else t
cnt = collections.Counter()
@settings(max_examples=int(sys.argv[1]), deadline=None, database=None, suppress_health_check=list(HealthCheck))
@given(st.data())
def test(data):
    base = data.draw(dtree(3))
    a = data.draw(variant(base, False)); b = data.draw(variant(base, True))
    sa, sb = optree.tree_structure(a), optree.tree_structure(b)
    cnt['n'] += 1
    try: fut = sa.flatten_up_to(b); f = True
    except ValueError: f = False
    p = sa.is_prefix(sb)
    assert p == f == True, (a, b, p, f)
try: test(); print('OK')
except BaseException: import traceback; traceback.print_exc(limit=2)
print(cnt)
