"""Scratch: cooperative scheduler prototype for C17 (not framework)."""
import threading, itertools, sys, faulthandler, collections
import optree
from optree.registry import __GLOBAL_NAMESPACE as G

class Sched:
    def __init__(s): s.cv = threading.Condition(); s.turn = None; s.state = {}; s.tls = threading.local()
    def point(s, label=''):
        me = getattr(s.tls, 'name', None)
        if me is None: return            # not a scheduled thread (solo run)
        with s.cv:
            s.state[me] = 'parked'; s.turn = None; s.cv.notify_all()
            s.cv.wait_for(lambda: s.turn == me)
            s.state[me] = 'running'
    def run(s, ops, schedule):
        """ops: dict name->callable; schedule: list of names (who moves at each step). returns results, trace"""
        results = {}; s.state = {n: 'new' for n in ops}; s.turn = None
        def body(n, f):
            s.tls.name = n
            with s.cv:
                s.state[n] = 'parked'; s.cv.notify_all(); s.cv.wait_for(lambda: s.turn == n); s.state[n] = 'running'
            try: results[n] = ('ok', f())
            except BaseException as e: results[n] = ('exc', type(e).__name__)
            with s.cv: s.state[n] = 'done'; s.turn = None; s.cv.notify_all()
        ths = [threading.Thread(target=body, args=(n, f), daemon=True) for n, f in ops.items()]
        for t in ths: t.start()
        with s.cv: s.cv.wait_for(lambda: all(v == 'parked' for v in s.state.values()))
        trace = []
        sched = list(schedule)
        while True:
            with s.cv:
                live = [n for n, v in s.state.items() if v == 'parked']
                if not live: break
                n = None
                while sched:
                    c = sched.pop(0)
                    if c in live: n = c; break
                if n is None: n = live[0]
                trace.append(n); s.turn = n; s.cv.notify_all()
                s.cv.wait_for(lambda: s.turn is None)
        for t in ths: t.join()
        return results, trace

S = Sched()
class CNode:
    def __init__(s, *ch): s.ch = ch
optree.register_pytree_node(CNode, lambda o: (S.point('flatten'), (o.ch, None))[1], lambda m, c: (S.point('unflatten'), CNode(*c))[1], namespace='c17')
def pred(x): S.point('pred'); return False
tree = [1, CNode(2, (3, CNode(4))), {'b': 5, 'a': 6}]
class Other: pass
def op_flatten(): return optree.tree_flatten(tree, namespace='c17')
def op_map(): return optree.tree_leaves(optree.tree_map(lambda x: (S.point('f'), x + 1)[1], tree, namespace='c17'), namespace='c17')
def op_reg():
    class Tmp: pass
    optree.register_pytree_node(Tmp, lambda o: ((), None), lambda m, c: Tmp(), namespace='c17x'); optree.unregister_pytree_node(Tmp, namespace='c17x'); return 'reg'
def op_iter_shared(it, out): 
    def f():
        for x in it: out.append(x)
        return None
    return f
solo = {n: f() for n, f in {'A': op_flatten, 'B': op_map, 'C': op_reg}.items()}
faulthandler.dump_traceback_later(60, exit=True)
n_sched = 0; bad = 0
# count points per op
import math
for schedule in itertools.islice(itertools.product('ABC', repeat=9), 0, 3000, 7):
    res, trace = S.run({'A': op_flatten, 'B': op_map, 'C': op_reg}, schedule)
    n_sched += 1
    for n in 'ABC':
        if res[n] != ('ok', solo[n]): bad += 1; print('MISMATCH', schedule, n, res[n])
print('schedules', n_sched, 'bad', bad)
# shared iterator
tot = collections.Counter()
for schedule in itertools.islice(itertools.product('AB', repeat=8), 0, 256, 3):
    it = optree.tree_iter(tree, is_leaf=pred, namespace='c17'); oa, ob = [], []
    res, trace = S.run({'A': op_iter_shared(it, oa), 'B': op_iter_shared(it, ob)}, schedule)
    got = sorted(oa + ob); tot[tuple(got) == (1, 2, 3, 4, 5, 6) or str(got)] += 1
    tot['split'] += bool(oa and ob)
print(tot)
faulthandler.cancel_dump_traceback_later()
