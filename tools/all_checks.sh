#!/bin/bash
# run every registered check on /repo's working tree (the evidence files under /verif/evidence are rewritten)
# usage: TIER=quick|thorough tools/all_checks.sh [ID ...]
cd /verif
IDS=${@:-C01 C02 C03 C04 C05 C06 C07 C08 C09 C10 C11 C12 C13 C14 C15 C16 C17 C18 C19 C20}
bad=0
for c in $IDS; do
  out=$(./check $c --tier ${TIER:-quick} 2>&1); rc=$?
  echo "$c rc=$rc $(echo "$out" | grep -E "$c (quick|thorough):" | tail -1)"
  if [ $rc -ne 0 ]; then bad=1; echo "$out" | grep -E "VIOLATION|oracle=|HARNESS|rror" | head -8; fi
done
exit $bad
