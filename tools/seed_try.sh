#!/bin/bash
# usage: seed_try.sh <name> <ID> [<ID> ...]  -- apply /verif/seeded/<name>/patch.diff to /repo, run the quick checks, undo
NAME=$1; shift
cd /verif
git -C /repo apply /verif/seeded/$NAME/patch.diff || exit 2
for id in "$@"; do
  echo "== $id vs $NAME"; ./check $id --tier ${TIER:-quick} 2>&1 | grep -E "VIOLATION|oracle=|violations=|harness|KNOWN" | head -${LINES_MAX:-8}
done
git -C /repo checkout -- .
rm -f /verif/replays/*.json
