#!/venv/bin/python
"""Sensitivity sweep: first-order mutants of the C++ engine against the quick checks (see tools/mutants.py).

  tools/mutants_cpp.py list <file under /repo, e.g. src/treespec/flatten.cpp>
  tools/mutants_cpp.py run  <file> [--every k --offset j] [--only i,j] [--out results.jsonl] [--scratch DIR]

Text-level operators on code lines (comments, EXPECT_/INTERNAL_ERROR/throw message lines skipped):
  ==/!= swap, </<= and >/>= swap (spaced binary operators only), &&/|| swap, `+ 1`/`- 1` swap, true/false flip,
  `!x` -> `x` in conditions, a field assignment / emplace_back / Py_INCREF-like statement dropped.
"""
from __future__ import annotations

import argparse
import json
import os
import re
import shutil
import subprocess
import time
from pathlib import Path

VERIF = Path(__file__).resolve().parent.parent
REPO = Path('/repo')

FUNC_CHECKS = [
    ('FlattenIntoWithPath', ['C03', 'C04']), ('FlattenUpTo', ['C07', 'C05']), ('FlattenInto', ['C01', 'C03', 'C02']),
    ('Flatten', ['C01', 'C03']), ('Unflatten', ['C01', 'C05']), ('Broadcast', ['C09']),
    ('Compose', ['C08', 'C10']), ('Transform', ['C08']), ('Children', ['C08']), ('Child', ['C08']), ('OneLevel', ['C08', 'C18']),
    ('Entries', ['C08', 'C04']), ('Entry', ['C08', 'C04']), ('Paths', ['C03', 'C04']), ('Accessors', ['C03', 'C04']),
    ('IsPrefix', ['C07']), ('operator', ['C06']), ('EqualTo', ['C06']), ('Hash', ['C06']), ('ToString', ['C06', 'C08']),
    ('ToPickleable', ['C11']), ('FromPickleable', ['C11']), ('Walk', ['C08', 'C05']), ('Traverse', ['C08', 'C14']),
    ('PyTreeIter', ['C03']), ('Next', ['C03']), ('MakeFrom', ['C08']), ('MakeLeaf', ['C08']), ('MakeNone', ['C08']),
    ('Register', ['C12', 'C02']), ('Unregister', ['C12']), ('Lookup', ['C12', 'C02']), ('DictInsertionOrdered', ['C13']),
    ('GetKind', ['C02', 'C01']), ('GetType', ['C08']), ('IsLeaf', ['C08', 'C02']), ('GetPathEntryType', ['C04']),
    ('NamedTuple', ['C18', 'C02']), ('StructSequence', ['C18', 'C02']), ('TotalOrderSort', ['C18', 'C01']),
    ('DictKeysEqual', ['C07', 'C05']), ('DictKeysDifference', ['C07']), ('AssertExact', ['C07', 'C05', 'C10']), ('SortedDictKeys', ['C07', 'C01']), ('DictKeys', ['C01', 'C02']), ('tp_traverse', ['C14']), ('PyTpTraverse', ['C14']), ('tp_clear', ['C14']),
]
FILE_DEFAULT = {
    'flatten.cpp': ['C01', 'C03', 'C02'], 'unflatten.cpp': ['C01', 'C05'], 'treespec.cpp': ['C08', 'C09', 'C04'],
    'richcomparison.cpp': ['C07', 'C06'], 'hashing.cpp': ['C06'], 'serialization.cpp': ['C11', 'C06'],
    'traversal.cpp': ['C03'], 'constructor.cpp': ['C08'], 'gc.cpp': ['C14'], 'registry.cpp': ['C12', 'C02', 'C13'],
    'optree.cpp': ['C08', 'C03'], 'pytypes.h': ['C18', 'C02', 'C01'], 'registry.h': ['C12'], 'treespec.h': ['C03', 'C08'],
    'stdutils.h': ['C01'], 'hashing.h': ['C06'],
}
SKIP_LINE = re.compile(r'^\s*(//|#|\*|/\*|EXPECT_|INTERNAL_ERROR|throw |PyErr_SetString|oss <<|sstream <<|"|static_assert|template|using |namespace )')


def sites(path: Path):
    src = path.read_text()
    lines = src.splitlines(keepends=True)
    out = []
    func = '<file>'
    in_block_comment = False
    pos = 0
    for ln_no, line in enumerate(lines, 1):
        start = pos
        pos += len(line)
        s = line.rstrip('\n')
        if in_block_comment:
            if '*/' in s:
                in_block_comment = False
            continue
        if s.lstrip().startswith('/*') and '*/' not in s:
            in_block_comment = True
            continue
        if s and not s[0].isspace() and '(' in s:
            m = re.search(r'(\w+)::(~?\w+)\s*\(', s) or re.search(r'\b(\w+)\s*\(', s)
            if m and not s.startswith(('#', '//', 'PYBIND', 'EXPECT', '}')):
                func = m.group(m.lastindex)
        if SKIP_LINE.match(s):
            continue
        code = s.split('//')[0]
        if '"' in code:      # do not touch string literals (messages)
            code_for_ops = re.sub(r'"(\\.|[^"\\])*"', lambda m: ' ' * len(m.group(0)), code)
        else:
            code_for_ops = code

        def add(op, a, b, repl):
            out.append({'op': op, 'line': ln_no, 'func': func, 'a': start + a, 'b': start + b, 'repl': repl,
                        'orig': s[a:b], 'text': s.strip()[:100]})
        for m in re.finditer(r' (==|!=) ', code_for_ops):
            add('eq', m.start(1), m.end(1), '!=' if m.group(1) == '==' else '==')
        for m in re.finditer(r' (<=|>=|<|>) ', code_for_ops):
            o = m.group(1)
            add('rel', m.start(1), m.end(1), {'<': '<=', '<=': '<', '>': '>=', '>=': '>'}[o])
        for m in re.finditer(r' (&&|\|\|) ', code_for_ops):
            add('logic', m.start(1), m.end(1), '||' if m.group(1) == '&&' else '&&')
        for m in re.finditer(r' ([+-]) 1\b', code_for_ops):
            add('off_by_one', m.start(1), m.end(1), '-' if m.group(1) == '+' else '+')
        for m in re.finditer(r'\b(true|false)\b', code_for_ops):
            add('bool', m.start(1), m.end(1), 'false' if m.group(1) == 'true' else 'true')
        for m in re.finditer(r'(?<=[(\s&|])!(?=[\w(])', code_for_ops):
            if re.search(r'\b(if|while|return|&&|\|\|)\b|&&|\|\|', code_for_ops):
                add('not_removed', m.start(), m.end(), '')
        st = code.strip()
        if re.match(r'^(node|root|treespec->m_\w+|m_\w+|\w+)(\.|->)\w+ = [^;]+;$', st) or \
           re.match(r'^[\w.>-]+(\.|->)(emplace_back|push_back|pop_back|erase|insert|clear|reserve)\(.*\);$', st) or \
           re.match(r'^(std::reverse|std::sort|TotalOrderSort|Py_INCREF|Py_DECREF|Py_XDECREF)\(.*\);$', st) or \
           re.match(r'^(\+\+|--)\w+;$|^\w+(\+\+|--);$|^\w+ [+-]= [^;]+;$', st):
            a = len(s) - len(s.lstrip())
            add('stmt_dropped', a, len(code.rstrip()), ';')
    return src.encode(), out


def checks_for(relfile: str, func: str) -> list[str]:
    for key, cs in FUNC_CHECKS:
        if key in func:
            return cs
    return FILE_DEFAULT.get(Path(relfile).name, ['C01', 'C03'])


def main():
    ap = argparse.ArgumentParser()
    ap.add_argument('cmd', choices=['list', 'run'])
    ap.add_argument('file')
    ap.add_argument('--only')
    ap.add_argument('--every', type=int, default=1)
    ap.add_argument('--offset', type=int, default=0)
    ap.add_argument('--out', default='/tmp/mutants/cpp_results.jsonl')
    ap.add_argument('--scratch', default='/tmp/mutants/repo_cpp')
    ap.add_argument('--checks')
    a = ap.parse_args()
    bsrc, ss = sites(REPO / a.file)
    # byte offsets: the files are ASCII; verify
    assert len(bsrc) == len(bsrc.decode()), 'non-ascii source: offsets would be off'
    if a.cmd == 'list':
        for i, s in enumerate(ss):
            print(i, s['line'], s['func'], s['op'], repr(s['orig'][:30]), '->', repr(s['repl']), '|', s['text'][:70], checks_for(a.file, s['func']))
        print(len(ss), 'sites')
        return
    scratch = Path(a.scratch)
    Path(a.out).parent.mkdir(parents=True, exist_ok=True)
    if scratch.exists():
        shutil.rmtree(scratch)
    scratch.mkdir(parents=True)
    subprocess.run(f'git -C /repo archive HEAD | tar -x -C {scratch}', shell=True, check=True)
    target = scratch / a.file
    only = set(map(int, a.only.split(','))) if a.only else None
    done = set()
    if os.path.exists(a.out):
        for l in open(a.out):
            d = json.loads(l)
            done.add((d['file'], d['a'], d['op']))
    env = dict(os.environ, VERIF_REPO=str(scratch), VERIF_OUT=str(scratch.parent / (scratch.name + '_out')))
    try:
        for i, s in enumerate(ss):
            if only is not None and i not in only:
                continue
            if only is None and (i - a.offset) % a.every:
                continue
            if (a.file, s['a'], s['op']) in done:
                continue
            target.write_bytes(bsrc[:s['a']] + s['repl'].encode() + bsrc[s['b']:])
            t0 = time.time()
            b = subprocess.run(['/venv/bin/python', str(VERIF / 'vlib' / 'build.py'), 'plain'], capture_output=True, text=True, env=env, cwd=str(VERIF))
            rec = {'file': a.file, 'i': i, **{k: s[k] for k in ('op', 'line', 'func', 'a', 'orig', 'repl', 'text')}}
            if b.returncode != 0:
                rec.update(caught=None, verdict='does not compile')
            else:
                checks = a.checks.split(',') if a.checks else checks_for(a.file, s['func'])
                verdict = {}
                for c in checks:
                    r = subprocess.run([str(VERIF / 'check'), c, '--tier', 'quick'], capture_output=True, text=True, env=env, cwd=str(VERIF))
                    o = [l for l in r.stdout.splitlines() if 'oracle=' in l]
                    verdict[c] = {'rc': r.returncode, 'oracle': o[0].strip()[:160] if o else ''}
                    if r.returncode == 1:
                        break
                rec.update(caught=any(v['rc'] == 1 for v in verdict.values()), verdict=verdict)
            rec['wall'] = round(time.time() - t0, 1)
            with open(a.out, 'a') as f:
                f.write(json.dumps(rec) + '\n')
            tag = {True: 'CAUGHT ', False: 'MISSED ', None: 'NOBUILD'}[rec['caught']]
            print(f"{tag} {a.file}:{s['line']} {s['func']} {s['op']} {s['orig']!r}->{s['repl']!r} | {s['text'][:60]} {rec['verdict']}", flush=True)
    finally:
        target.write_bytes(bsrc)


if __name__ == '__main__':
    main()
