#!/bin/bash
# usage: try_edit.sh <file under repo> <python-regex> <replacement> <ID> [<ID>...]  -- one hand-written mutant against checks (scratch copy)
F=$1; PAT=$2; REP=$3; shift 3
S=$(mktemp -d /tmp/tryedit.XXXX); trap 'rm -rf $S' EXIT
mkdir $S/r; git -C /repo archive HEAD | tar -x -C $S/r
python3 - "$S/r/$F" "$PAT" "$REP" <<'PY' || exit 2
import re, sys
p, pat, rep = sys.argv[1:4]
s = open(p).read()
n = len(re.findall(pat, s))
if n != 1:
    sys.exit(f'pattern matches {n} times (need exactly 1)')
open(p, 'w').write(re.sub(pat, rep, s, count=1))
PY
for id in "$@"; do
  echo "== $id"; VERIF_REPO=$S/r VERIF_OUT=$S/out /verif/check $id --tier ${TIER:-quick} 2>&1 | grep -E "VIOLATION|oracle=|violations=|rror" | head -4 | cut -c1-250
done
