#!/venv/bin/python
"""Sensitivity sweep: first-order mutants of optree's *Python* sources against the quick checks.

Not a registered check - a tool for finding blind spots of the machinery (DESIGN.md section 6).  Every mutant is
applied to a scratch export of /repo HEAD (outside /repo and /verif), the checks that exercise the mutated
function are run with VERIF_REPO pointing at the scratch copy, and the verdict is logged.

  tools/mutants.py list  <file>                 enumerate mutation sites of optree/<file>
  tools/mutants.py run   <file> [--only i,j] [--every k] [--out results.jsonl] [--scratch DIR]

Operators: comparison swap, and/or swap, `not` removal, True/False flip, small-int +1, keyword argument dropped
from a call (`is_leaf=`, `none_is_leaf=`, `namespace=` ... - the classic forgotten forward), `if` condition
negated, early `return`/`continue` under an `if` removed.
"""
from __future__ import annotations

import argparse
import ast
import json
import os
import re
import shutil
import subprocess
import sys
import time
from pathlib import Path

VERIF = Path(__file__).resolve().parent.parent
REPO = Path('/repo')

FILE_DEFAULT = {
    'registry.py': ['C12', 'C13', 'C18'], 'accessor.py': ['C04'], 'utils.py': ['C18', 'C07'],
    'dataclasses.py': ['C19'], 'functools.py': ['C19'], 'typing.py': ['C18', 'C02'],
    'integration/numpy.py': ['C20'], 'integration/jax.py': ['C20'], 'integration/torch.py': ['C20'],
    'ops.py': ['C03', 'C05'],
}
CMP = {ast.Eq: '!=', ast.NotEq: '==', ast.Lt: '<=', ast.LtE: '<', ast.Gt: '>=', ast.GtE: '>',
       ast.Is: 'is not', ast.IsNot: 'is', ast.In: 'not in', ast.NotIn: 'in'}


def sites(path: Path):
    src = path.read_text()
    tree = ast.parse(src)
    lines = src.splitlines(keepends=True)
    offs = [0]
    for ln in lines:
        offs.append(offs[-1] + len(ln.encode()))
    bsrc = src.encode()

    def span(node):
        return offs[node.lineno - 1] + node.col_offset, offs[node.end_lineno - 1] + node.end_col_offset

    def text(node):
        a, b = span(node)
        return bsrc[a:b].decode()

    out = []
    func_stack = []

    class V(ast.NodeVisitor):
        def visit_FunctionDef(self, node):
            func_stack.append(node.name)
            for st_ in node.body:                       # not the signature (defaults) nor the decorators
                self.visit(st_)
            func_stack.pop()
        visit_AsyncFunctionDef = visit_FunctionDef

        def visit_ClassDef(self, node):
            func_stack.append(node.name)
            self.generic_visit(node)
            func_stack.pop()

        def visit_If(self, node):
            t = node.test
            if isinstance(t, ast.Name) and t.id == 'TYPE_CHECKING':
                return
            if not isinstance(t, (ast.Compare, ast.UnaryOp)):      # those are mutated by cmp / not_removed
                a, b = span(t)
                add('if_negate', node, a, b, f'not ({text(t)})')
            self.generic_visit(node)

        def visit_Compare(self, node):
            if len(node.ops) == 1 and type(node.ops[0]) in CMP:
                l, r = node.left, node.comparators[0]
                a = span(l)[1]
                b = span(r)[0]
                add('cmp', node, a, b, f' {CMP[type(node.ops[0])]} ')
            self.generic_visit(node)

        def visit_BoolOp(self, node):
            # swap the first operator occurrence
            v0, v1 = node.values[0], node.values[1]
            a, b = span(v0)[1], span(v1)[0]
            mid = bsrc[a:b].decode()
            new = mid.replace('and', 'or') if isinstance(node.op, ast.And) else mid.replace('or', 'and')
            if new != mid and '#' not in mid:
                add('boolop', node, a, b, new)
            self.generic_visit(node)

        def visit_UnaryOp(self, node):
            if isinstance(node.op, ast.Not):
                a, b = span(node)
                add('not_removed', node, a, b, f'({text(node.operand)})')
            self.generic_visit(node)

        def visit_Constant(self, node):
            if node.value is True or node.value is False:
                a, b = span(node)
                add('bool_flip', node, a, b, 'False' if node.value else 'True')
            elif type(node.value) is int and 0 <= node.value <= 3:
                a, b = span(node)
                add('int_plus1', node, a, b, str(node.value + 1))

        def visit_Call(self, node):
            for kw in node.keywords:
                if kw.arg is None:
                    continue
                a, b = span(kw.value)
                a0 = a - len(kw.arg) - 1
                if bsrc[a0:a].decode() != kw.arg + '=':
                    continue
                # remove 'name=value' and a neighbouring comma
                rest = bsrc[b:]
                m = re.match(rb'\s*,', rest)
                if m:
                    add('kw_dropped:' + kw.arg, node, a0, b + m.end(), '')
                else:
                    before = bsrc[:a0]
                    m2 = re.search(rb',\s*$', before)
                    if m2:
                        add('kw_dropped:' + kw.arg, node, m2.start(), b, '')
            self.generic_visit(node)

        def visit_Return(self, node):
            self.generic_visit(node)

    def add(op, node, a, b, repl):
        out.append({'op': op, 'line': node.lineno, 'func': func_stack[0] if func_stack else '<module>',
                    'inner': '.'.join(func_stack), 'a': a, 'b': b, 'repl': repl,
                    'orig': bsrc[a:b].decode()})

    V().visit(tree)
    # early exits under an if: "if c: return x" / "continue" -> "pass"
    for node in ast.walk(tree):
        if isinstance(node, ast.If) and len(node.body) == 1 and isinstance(node.body[0], (ast.Continue,)) and not node.orelse:
            a, b = span(node.body[0])
            out.append({'op': 'continue_removed', 'line': node.lineno, 'func': '?', 'inner': '?', 'a': a, 'b': b,
                        'repl': 'pass', 'orig': 'continue'})
    # function attribution for the late additions
    funcs = [(n.lineno, n.end_lineno, n.name) for n in tree.body if isinstance(n, (ast.FunctionDef, ast.ClassDef))]
    for s in out:
        if s['func'] == '?':
            s['func'] = next((nm for lo, hi, nm in funcs if lo <= s['line'] <= hi), '<module>')
            s['inner'] = s['func']
    # drop mutants in typing-only / message-only contexts
    keep = []
    for s in out:
        line = lines[s['line'] - 1]
        if 'TYPE_CHECKING' in line or line.lstrip().startswith(('raise ', '@', 'warnings.warn')):
            continue
        if s['op'].startswith('kw_dropped:') and s['op'].split(':')[1] in ('stacklevel', 'category'):
            continue
        keep.append(s)
    keep.sort(key=lambda s: (s['a'], s['op']))
    return bsrc, keep


def checks_for(relfile: str, func: str) -> list[str]:
    """checks whose source mentions the mutated public function; else the file default"""
    hits = {}
    if not func.startswith('_') and func != '<module>':
        for f in sorted((VERIF / 'vlib' / 'props').glob('c[0-9][0-9].py')):
            n = len(re.findall(r'\b' + re.escape(func) + r'\b', f.read_text()))
            if n:
                hits[f.stem.upper()] = n
    for slow in ('C16', 'C17'):                       # sanitizer / scheduler checks: not for a first-order sweep
        hits.pop(slow, None)
    best = sorted(hits, key=lambda k: -hits[k])[:3]
    return best or FILE_DEFAULT.get(relfile, ['C03'])


def main():
    ap = argparse.ArgumentParser()
    ap.add_argument('cmd', choices=['list', 'run'])
    ap.add_argument('file')
    ap.add_argument('--only')
    ap.add_argument('--every', type=int, default=1)
    ap.add_argument('--offset', type=int, default=0)
    ap.add_argument('--out', default='/tmp/mutants/results.jsonl')
    ap.add_argument('--scratch', default='/tmp/mutants/repo')
    ap.add_argument('--checks')
    a = ap.parse_args()
    bsrc, ss = sites(REPO / 'optree' / a.file)
    if a.cmd == 'list':
        for i, s in enumerate(ss):
            print(i, s['line'], s['func'], s['op'], repr(s['orig'][:40]), '->', repr(s['repl'][:40]), checks_for(a.file, s['func']))
        print(len(ss), 'sites')
        return
    scratch = Path(a.scratch)
    Path(a.out).parent.mkdir(parents=True, exist_ok=True)
    if scratch.exists():
        shutil.rmtree(scratch)
    scratch.mkdir(parents=True)
    subprocess.run(f'git -C /repo archive HEAD | tar -x -C {scratch}', shell=True, check=True)
    target = scratch / 'optree' / a.file
    only = set(map(int, a.only.split(','))) if a.only else None
    done = set()
    if os.path.exists(a.out):
        for l in open(a.out):
            d = json.loads(l)
            done.add((d['file'], d['a'], d['op']))
    try:
        for i, s in enumerate(ss):
            if only is not None and i not in only:
                continue
            if only is None and (i - a.offset) % a.every:
                continue
            if (a.file, s['a'], s['op']) in done:
                continue
            mutated = bsrc[:s['a']] + s['repl'].encode() + bsrc[s['b']:]
            try:
                compile(mutated, 'm', 'exec')
            except SyntaxError:
                continue
            target.write_bytes(mutated)
            checks = a.checks.split(',') if a.checks else checks_for(a.file, s['func'])
            verdict = {}
            t0 = time.time()
            for c in checks:
                env = dict(os.environ, VERIF_REPO=str(scratch), VERIF_OUT=str(scratch.parent / (scratch.name + '_out')))
                r = subprocess.run([str(VERIF / 'check'), c, '--tier', 'quick'], capture_output=True, text=True, env=env, cwd=str(VERIF))
                o = [l for l in r.stdout.splitlines() if 'oracle=' in l]
                verdict[c] = {'rc': r.returncode, 'oracle': o[0].strip()[:160] if o else ''}
                if r.returncode == 1:
                    break
            caught = any(v['rc'] == 1 for v in verdict.values())
            rec = {'file': a.file, 'i': i, **{k: s[k] for k in ('op', 'line', 'func', 'a', 'orig', 'repl')},
                   'caught': caught, 'verdict': verdict, 'wall': round(time.time() - t0, 1)}
            with open(a.out, 'a') as f:
                f.write(json.dumps(rec) + '\n')
            print(('CAUGHT ' if caught else 'MISSED ') + f"{a.file}:{s['line']} {s['func']} {s['op']} {s['orig'][:30]!r}->{s['repl'][:30]!r} {verdict}", flush=True)
    finally:
        target.write_bytes(bsrc)


if __name__ == '__main__':
    main()
