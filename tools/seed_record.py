"""usage: seed_record.py <name> <property> <detected_by comma list> <note>
Adds my own confirmation record to seeded/<name>/meta.json (the sub-agent's fields are kept)."""
import json, sys
name, prop, det, note = sys.argv[1:5]
p = f'/verif/seeded/{name}/meta.json'
m = json.load(open(p))
m['property'] = prop
m['confirmed_by_me'] = {
    'ran': ['tools/seed_confirm.sh <worktree> %s  (demo.py exit 0 on clean build of /repo HEAD, exit !=0 on a build of the worktree with exactly patch.diff applied, full repo suite SUITE PASS on that worktree)' % name,
            'tools/seed_try.sh %s %s  (git -C /repo apply patch.diff; ./check <ID> --tier quick; git -C /repo checkout -- .)' % (name, ' '.join(det.split(',')))],
    'detected_by': det.split(','),
    'note': note,
}
json.dump(m, open(p, 'w'), indent=1)
print('recorded', name)
