#!/bin/bash
# run every quick check at several seeds; print one line per (seed, check)
SEEDS=${SEEDS:-"2 3 4"}
export VERIF_REPO=${VP_RUN_REPO:-/repo}   # a snapshot of /repo when started with `vp run --with-repo` (immune to seed_try)
for s in $SEEDS; do
  for c in ${CHECKS:-C01 C02 C03 C04 C05 C06 C07 C08 C09 C10 C11 C12 C13 C14 C15 C16 C17 C18 C19 C20}; do
    out=$(VERIF_SEED=$s ./check $c --tier ${TIER:-quick} 2>&1); rc=$?
    echo "seed=$s $c rc=$rc $(echo "$out" | grep -E "$c (quick|thorough):" | tail -1)"
    if [ $rc -ne 0 ]; then echo "$out" | grep -E "VIOLATION|oracle=|HARNESS|rror" | head -8; fi
  done
done
