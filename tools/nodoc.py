"""Print a python file without docstrings/blank lines (reading aid)."""
import ast, sys
src = open(sys.argv[1]).read()
tree = ast.parse(src)
lines = src.split('\n')
drop = set()
for node in ast.walk(tree):
    if isinstance(node, (ast.FunctionDef, ast.ClassDef, ast.Module, ast.AsyncFunctionDef)):
        b = node.body
        if b and isinstance(b[0], ast.Expr) and isinstance(getattr(b[0], 'value', None), ast.Constant) and isinstance(b[0].value.value, str):
            for i in range(b[0].lineno, b[0].end_lineno + 1):
                drop.add(i)
lo = int(sys.argv[2]) if len(sys.argv) > 2 else 1
hi = int(sys.argv[3]) if len(sys.argv) > 3 else 10**9
for i, l in enumerate(lines, 1):
    if i in drop or not l.strip() or i < lo or i > hi or l.strip().startswith('#'):
        continue
    print(f"{i}\t{l}")
