#!/bin/bash
# usage: confirm_many.sh "<worktree> <name>" ...   (sequential; logs in /tmp/confirm_<name>.log)
cd /verif
for pair in "$@"; do
  set -- $pair
  tools/seed_confirm.sh $1 $2 > /tmp/confirm_$2.log 2>&1
done
