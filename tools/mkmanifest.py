"""Regenerate MANIFEST.json from the table below (keeps it schema-valid at all times)."""
import json, sys
from pathlib import Path
V = Path(__file__).resolve().parent.parent
CHECKS = json.loads((V / 'tools' / 'checks.json').read_text())
man = {
    'version': 1,
    'setup_cmd': 'cd /verif && ./setup.sh',
    'hooks': {
        'guard': 'METAOPT_OPTREE_VERIF',
        'enable': 'no source hooks: every observation point is public API; checks compile /repo/src + /repo/include of the working tree directly (vlib/build.py) and import the staged package',
        'baseline_off_cmd': 'cd /repo && /venv/bin/python -m pytest -ra -q -p no:cacheprovider --timeout=900 --continue-on-collection-errors',
        'source_commits': [],
        'add_only': True,
    },
    'engines': [
        {'name': 'hypothesis-driver', 'path': 'vlib/runner.py', 'serves_properties': [c['property_id'] for c in CHECKS],
         'kind_free_text': 'Hypothesis-generated JSON case descriptions, bucket-and-continue failure collection, description-level delta debugging, replay files'},
        {'name': 'reference-model', 'path': 'vlib/model.py', 'serves_properties': ['C01','C02','C03','C04','C05','C06','C07','C08','C09','C10','C11','C14','C18'],
         'kind_free_text': 'pure-Python model of the documented flatten/equality/prefix/lub/repr semantics, independent of optree'},
        {'name': 'engine-builder', 'path': 'vlib/build.py', 'serves_properties': [c['property_id'] for c in CHECKS],
         'kind_free_text': 'rebuilds the C++ engine from /repo working tree: plain, ASan+UBSan, sancov (atheris) variants'},
    ],
    'checks': [],
    'not_applicable': json.loads((V / 'tools' / 'not_applicable.json').read_text()),
    'notes': 'All checks: ./check <ID> --tier quick|thorough ; replay: ./check <ID> --replay <file>. Known findings: known_findings.json.',
}
for c in CHECKS:
    pid = c['property_id']
    man['checks'].append({
        'property_id': pid,
        'quick_cmd': f'./check {pid} --tier quick',
        'thorough_cmd': f'./check {pid} --tier thorough',
        'evidence_file': f'/verif/evidence/{pid}.json',
        'replay_cmd_template': f'./check {pid} --replay {{path}}',
        'engine': 'hypothesis-driver',
        'level_claimed': {'category': c['level'], 'text': c['text'], 'design_ref': c.get('design_ref', f'DESIGN.md section 3 {pid}')},
        'level_note': c['note'],
        'technique': c['technique'],
    })
(V / 'MANIFEST.json').write_text(json.dumps(man, indent=1) + '\n')
import jsonschema
jsonschema.validate(man, json.loads(Path('/root/.vp/MANIFEST.schema.json').read_text()))
print('MANIFEST ok:', len(man['checks']), 'checks,', len(man['not_applicable']), 'not applicable')
