#!/bin/bash
# usage: seed_confirm.sh <worktree> <name>  -- confirm a sub-agent's seeded change myself and ingest it into /verif/seeded/<name>
# (a) demo passes on clean /repo build, (b) demo fails on the worktree build (rebuilt here from its sources), (c) suite passes on the worktree
WT=$1; NAME=$2
set -e
mkdir -p /verif/seeded/$NAME
cp $WT/seeded/patch.diff $WT/seeded/demo.py $WT/seeded/meta.json /verif/seeded/$NAME/
CHK=$(mktemp -d /tmp/chk.XXXX); git -C /repo archive HEAD | tar -x -C $CHK; (cd $CHK && git init -q . && git apply --check /verif/seeded/$NAME/patch.diff) && echo "patch applies to /repo HEAD"; rm -rf $CHK
# the clean reference build comes from an export of /repo's HEAD commit (not from the working tree, which
# tools/seed_try.sh may be patching at the same time)
CLEAN=$(mktemp -d /tmp/clean.XXXX); git -C /repo archive HEAD | tar -x -C $CLEAN
PKG=$(VERIF_REPO=$CLEAN /venv/bin/python /verif/vlib/build.py plain); rm -rf $CLEAN
set +e
( cd /tmp && PYTHONPATH=$PKG /venv/bin/python /verif/seeded/$NAME/demo.py > /tmp/demo_clean.log 2>&1 ); A=$?
# make sure the worktree really contains exactly the patch
( cd $WT && git stash -q 2>/dev/null; git checkout -q -- . ; git apply /verif/seeded/$NAME/patch.diff ) || { echo "cannot re-apply patch in worktree"; exit 1; }
/tmp/wt_tools/build.sh $WT > /dev/null
( cd /tmp && PYTHONPATH=$WT /venv/bin/python /verif/seeded/$NAME/demo.py > /tmp/demo_seeded.log 2>&1 ); B=$?
/tmp/wt_tools/suite.sh $WT > /tmp/suite_seeded.log 2>&1; C=$?
echo "demo on clean: exit $A ; demo with change: exit $B ; suite with change: exit $C ($(tail -1 /tmp/suite_seeded.log))"
if [ $A -eq 0 ] && [ $B -ne 0 ] && [ $C -eq 0 ]; then echo CONFIRMED; else echo NOT-CONFIRMED; tail -5 /tmp/demo_clean.log /tmp/demo_seeded.log; grep -v "^0 " /tmp/suite_seeded.log | head; fi
