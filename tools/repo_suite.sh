#!/bin/bash
# Rebuild /repo's in-tree extension from the working tree (git-ignored artefact) and run the pinned
# suite, one pytest process per test file in parallel (xdist cannot be used: test ids contain addresses).
PKG=$(/venv/bin/python /verif/vlib/build.py plain) || exit 2
cp $PKG/optree/_C.cpython-312-x86_64-linux-gnu.so /repo/optree/_C.cpython-312-x86_64-linux-gnu.so
cd /repo
OUT=$(mktemp -d /verif/.build/suite.XXXX)
for f in tests/test_*.py tests/integration; do
  n=$(echo $f | tr '/' '_')
  ( /venv/bin/python -m pytest -q -p no:cacheprovider --timeout=900 --continue-on-collection-errors $f > $OUT/$n.log 2>&1; echo "$? $f $(tail -1 $OUT/$n.log)" >> $OUT/summary ) &
done
wait
sort -k2 $OUT/summary
grep -h -E "^(FAILED|ERROR)" $OUT/*.log | head -20
if awk '{ if ($1 != 0) bad=1 } END { exit bad }' $OUT/summary; then echo "SUITE PASS"; rm -rf $OUT; else echo "SUITE FAIL (logs in $OUT)"; exit 1; fi
