#!/bin/bash
# Regression of the machinery against every seeded change: for each seeded/<name>, apply patch.diff to a
# scratch export of /repo HEAD (outside /repo and /verif), run the checks named in meta.json's
# confirmed_by_me.detected_by with VERIF_REPO pointing at the scratch copy, and expect a VIOLATION (exit 1).
# usage: seeds_regress.sh [name-substring]
cd /verif
FILTER=${1:-}
SCR=$(mktemp -d /tmp/seedrepo.XXXX)
trap 'rm -rf $SCR' EXIT
ok=0; bad=0
for d in seeded/*/; do
  name=$(basename $d)
  [[ -n "$FILTER" && "$name" != *$FILTER* ]] && continue
  rm -rf $SCR/r; mkdir -p $SCR/r; git -C /repo archive HEAD | tar -x -C $SCR/r
  ( cd $SCR/r && git init -q . && git apply /verif/$d/patch.diff ) || { echo "$name: patch does not apply"; bad=$((bad+1)); continue; }
  first=$(python3 -c "import json;print(json.load(open('$d/meta.json'))['confirmed_by_me']['detected_by'][0])")
  out=$(VERIF_REPO=$SCR/r VERIF_OUT=$SCR/out ./check $first --tier quick 2>&1); rc=$?
  if [ $rc -eq 1 ] && echo "$out" | grep -q "^VIOLATION property=$first"; then ok=$((ok+1)); echo "$name: caught by $first ($(echo "$out" | grep -m1 oracle= | cut -c1-90))"; else bad=$((bad+1)); echo "$name: MISSED by $first (rc=$rc)"; fi
done
echo "caught=$ok missed=$bad"
[ $bad -eq 0 ]
