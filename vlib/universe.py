"""The fixed universe of node / leaf / key classes used by the generated trees.

Everything lives in one importable module so that a second interpreter (C11 cross-process
pickling) finds the same classes under the same qualified names.  `install()` performs the
registrations exactly once and records them in MODEL_REGISTRY, the harness' own mirror
(namespace, type) -> (flatten_func, unflatten_func, path_entry_type) used by the reference model
(vlib/model.py), which never asks optree what is registered.
"""
from __future__ import annotations

import collections.abc
import dataclasses
import os
import time
from collections import OrderedDict, UserDict, defaultdict, deque, namedtuple

import optree
import optree.dataclasses as odc
import optree.functools as oft
from optree.registry import __GLOBAL_NAMESPACE as GLOBAL  # noqa: N811

NS = 'vns'            # the namespace with registrations
NS_UNKNOWN = 'zz-unknown'


# ---------------------------------------------------------------- leaves
class Leaf:
    """Opaque leaf; identity matters, weakref-able."""

    __slots__ = ('n', '__weakref__')

    def __init__(self, n):
        self.n = n

    def __repr__(self):
        return f'L{self.n}'


class ListSub(list):
    pass


class DictSub(dict):
    pass


class TupleSub(tuple):
    pass


class DequeSub(deque):
    pass


class ODSub(OrderedDict):
    pass


class DDSub(defaultdict):
    pass


SUBCLASS_LEAVES = {
    'ListSub': lambda: ListSub([1, 2]),
    'DictSub': lambda: DictSub(a=1),
    'TupleSub': lambda: TupleSub((1, 2)),
    'DequeSub': lambda: DequeSub([1]),
    'ODSub': lambda: ODSub(a=1),
    'DDSub': lambda: DDSub(int, a=1),
}


# ---------------------------------------------------------------- keys
class KO:
    """User key type with a total order among KO; NotImplemented towards foreign types."""

    __slots__ = ('n',)

    def __init__(self, n):
        self.n = n

    def __lt__(self, other):
        return self.n < other.n if isinstance(other, KO) else NotImplemented

    def __eq__(self, other):
        return isinstance(other, KO) and self.n == other.n

    def __hash__(self):
        return hash(('KO', self.n))

    def __repr__(self):
        return f'KO({self.n})'


class K:
    """Hashable key without any ordering (an unsortable group)."""

    __slots__ = ('n',)

    def __init__(self, n):
        self.n = n

    def __eq__(self, other):
        return isinstance(other, K) and self.n == other.n

    def __hash__(self):
        return hash(('K', self.n))

    def __repr__(self):
        return f'K({self.n})'


class Alpha:
    """holder of a nested key class: qualname 'Alpha.Zed' sorts before 'Beta', name 'Zed' after it"""

    class Zed:
        __slots__ = ('n',)

        def __init__(self, n):
            self.n = n

        def __lt__(self, other):
            return self.n < other.n if isinstance(other, Alpha.Zed) else NotImplemented

        def __eq__(self, other):
            return isinstance(other, Alpha.Zed) and self.n == other.n

        def __hash__(self):
            return hash(('Zed', self.n))

        def __repr__(self):
            return f'Alpha.Zed({self.n})'


class Beta:
    __slots__ = ('n',)

    def __init__(self, n):
        self.n = n

    def __lt__(self, other):
        return self.n < other.n if isinstance(other, Beta) else NotImplemented

    def __eq__(self, other):
        return isinstance(other, Beta) and self.n == other.n

    def __hash__(self):
        return hash(('Beta', self.n))

    def __repr__(self):
        return f'Beta({self.n})'


# ---------------------------------------------------------------- namedtuples / struct sequences
NT0 = namedtuple('NT0', '')
NT1 = namedtuple('NT1', 'only')
NT2 = namedtuple('NT2', 'a b')


class NTSub(NT2):
    """Subclass of a namedtuple class: still a namedtuple node."""


NT0.__module__ = NT1.__module__ = NT2.__module__ = __name__
NAMEDTUPLES = {'NT0': NT0, 'NT1': NT1, 'NT2': NT2, 'NTSub': NTSub}
STRUCTSEQS = {'terminal_size': os.terminal_size, 'struct_time': time.struct_time,
              'times_result': os.times_result}
STRUCTSEQ_ARITY = {'terminal_size': 2, 'struct_time': 9, 'times_result': 5}


def default_factory_fn():
    return Leaf(-1)


class UnhashableFactory:
    """a callable default_factory without __hash__ (hashing a treespec that mentions it must raise)"""

    __hash__ = None

    def __call__(self):
        return 0

    def __eq__(self, other):
        return isinstance(other, UnhashableFactory)

    def __repr__(self):
        return 'UnhashableFactory()'


UNHASHABLE_FACTORY = UnhashableFactory()
FACTORIES = {'None': None, 'int': int, 'list': list, 'dict': dict, 'fn': default_factory_fn}
FACTORIES_EXTRA = {'unhashable': UNHASHABLE_FACTORY}


# ---------------------------------------------------------------- custom nodes
class CG:
    """class-registered globally; 2-tuple flatten (no entries => 0..n-1); supports [i]."""

    def __init__(self, *ch, tag=None):
        self.ch = list(ch)
        self.tag = tag

    def __getitem__(self, i):
        return self.ch[i]

    def tree_flatten(self):
        return tuple(self.ch), self.tag

    @classmethod
    def tree_unflatten(cls, tag, ch):
        return cls(*ch, tag=tag)

    def __repr__(self):
        return f'CG({self.ch!r}, tag={self.tag!r})'

    def _v_fields(self):
        return (('ch', list(self.ch)),), ('tag', self.tag)


class CN:
    """function-registered only in namespace NS; explicit entries + GetAttrEntry; metadata."""

    def __init__(self, x, y, meta=None):
        self.x, self.y, self.meta = x, y, meta

    def __repr__(self):
        return f'CN({self.x!r}, {self.y!r}, meta={self.meta!r})'

    def _v_fields(self):
        return (('x', self.x), ('y', self.y)), ('meta', self.meta)


def cn_flatten(o):
    return (o.x, o.y), o.meta, ('x', 'y')


def cn_unflatten(meta, ch):
    x, y = ch
    return CN(x, y, meta)


class CS:
    """registered globally AND in NS with different flatten functions (shadowing)."""

    def __init__(self, a, b):
        self.a, self.b = a, b

    def __repr__(self):
        return f'CS({self.a!r}, {self.b!r})'

    def _v_fields(self):
        return (('a', self.a), ('b', self.b)), ('-', None)


def cs_flatten_global(o):
    return [o.a, o.b], 'g', ('a', 'b')


def cs_unflatten_global(meta, ch):
    assert meta == 'g'
    a, b = ch
    return CS(a, b)


def cs_flatten_ns(o):
    return [o.b, o.a], 'v', ('b', 'a')


def cs_unflatten_ns(meta, ch):
    assert meta == 'v'
    b, a = ch
    return CS(a, b)


class CM(UserDict):
    """UserDict subclass, MappingEntry, children in *reverse* repr-sorted key order, metadata = keys."""

    TREE_PATH_ENTRY_TYPE = optree.MappingEntry

    def tree_flatten(self):
        ks = sorted(self.data, key=repr, reverse=True)
        return [self.data[k] for k in ks], ks, ks

    @classmethod
    def tree_unflatten(cls, md, ch):
        ch = list(ch)
        assert len(md) == len(ch)
        return cls(zip(md, ch))

    def _v_fields(self):
        ks = sorted(self.data, key=repr, reverse=True)
        return tuple((k, self.data[k]) for k in ks), ('keys', ks)


class CU:
    """metadata unhashable (a list); 3-tuple flatten with entries=None."""

    def __init__(self, ch, meta):
        self.ch = list(ch)
        self.meta = list(meta)

    def __getitem__(self, i):
        return self.ch[i]

    def tree_flatten(self):
        return list(self.ch), list(self.meta), None

    @classmethod
    def tree_unflatten(cls, meta, ch):
        return cls(ch, meta)

    def __repr__(self):
        return f'CU({self.ch!r}, {self.meta!r})'

    def _v_fields(self):
        return (('ch', list(self.ch)),), ('meta', self.meta)


class CI:
    """children handed out as a one-shot iterator (non-tuple iterable)."""

    def __init__(self, *ch):
        self.ch = list(ch)

    def __getitem__(self, i):
        return self.ch[i]

    def tree_flatten(self):
        return iter(self.ch), None

    @classmethod
    def tree_unflatten(cls, meta, ch):
        return cls(*ch)

    def __repr__(self):
        return f'CI({self.ch!r})'

    def _v_fields(self):
        return (('ch', list(self.ch)),), ('-', None)


class CO(CI):
    """children handed out as the node's *own* list (no copy): traversals must neither keep iterating it after a
    callback changed it nor modify it themselves"""

    def tree_flatten(self):
        return self.ch, None

    def __repr__(self):
        return f'CO({self.ch!r})'


@odc.dataclass(namespace=NS)
class DC:
    x: object
    y: object
    tag: object = odc.field(default='t', pytree_node=False)

    def _v_fields(self):
        return (('x', self.x), ('y', self.y)), ('tag', self.tag)


@dataclasses.dataclass
class DCI:
    """a plain dataclass registered by hand with DataclassEntry and *integer* entries (2-tuple flatten):
    entry i addresses the i-th init field; a non-init field sits between the two children"""

    a: object
    hidden: object = dataclasses.field(init=False, default='derived')
    b: object = None

    def _v_fields(self):
        return (('a', self.a), ('b', self.b)), ('-', None)


def dci_flatten(o):
    return (o.a, o.b), None


def dci_unflatten(meta, ch):
    a, b = ch
    return DCI(a, b)


def fn_a(*args, **kwargs):
    return ('fn_a', args, kwargs)


def fn_b(*args, **kwargs):
    return ('fn_b', args, kwargs)


FUNCS = {'fn_a': fn_a, 'fn_b': fn_b}

class CSeq(collections.abc.Sequence):
    """a Sequence subclass registered with the default AutoEntry (=> SequenceEntry)."""

    def __init__(self, *ch):
        self.ch = list(ch)

    def __getitem__(self, i):
        return self.ch[i]

    def __len__(self):
        return len(self.ch)

    def tree_flatten(self):
        return tuple(self.ch), None

    @classmethod
    def tree_unflatten(cls, meta, ch):
        return cls(*ch)

    def __repr__(self):
        return f'CSeq({self.ch!r})'

    def _v_fields(self):
        return (('ch', list(self.ch)),), ('-', None)


class CMap(collections.abc.Mapping):
    """a Mapping subclass registered with the default AutoEntry (=> MappingEntry); entries = keys."""

    def __init__(self, items):
        self.d = dict(items)

    def __getitem__(self, k):
        return self.d[k]

    def __iter__(self):
        return iter(self.d)

    def __len__(self):
        return len(self.d)

    def tree_flatten(self):
        ks = sorted(self.d)
        return [self.d[k] for k in ks], tuple(ks), tuple(ks)

    @classmethod
    def tree_unflatten(cls, meta, ch):
        return cls(zip(meta, ch))

    def __repr__(self):
        return f'CMap({self.d!r})'

    def _v_fields(self):
        ks = sorted(self.d)
        return tuple((k, self.d[k]) for k in ks), ('keys', tuple(ks))


class NTC(namedtuple('NTCBase', 'p q')):
    """a namedtuple class that is *registered as a custom node* in NS (overrides the namedtuple
    handling there; children in reverse order); a plain namedtuple node everywhere else"""

    __slots__ = ()


def ntc_flatten(o):
    return (o.q, o.p), 'ntc', ('q', 'p')


def ntc_unflatten(meta, ch):
    q, p = ch
    return NTC(p, q)


class CL:
    """custom node whose flatten yields its children from a generator and declares its entries as a
    *list* of mixed-type objects (int, str, tuple)"""

    ENTRIES = [0, 'one', (2, 'two'), 3.5]

    def __init__(self, ch):
        self.ch = list(ch)[:4]

    def __getitem__(self, e):
        return self.ch[self.ENTRIES.index(e)]

    def tree_flatten(self):
        return (c for c in self.ch), len(self.ch), list(self.ENTRIES[:len(self.ch)])

    @classmethod
    def tree_unflatten(cls, meta, ch):
        return cls(ch)

    TREE_PATH_ENTRY_TYPE = optree.GetItemEntry

    def __repr__(self):
        return f'CL({self.ch!r})'

    def _v_fields(self):
        return (('ch', list(self.ch)),), ('n', len(self.ch))


class DSN(dict):
    """a dict subclass registered as a custom node in NS only (a leaf elsewhere)"""

    def _v_fields(self):
        ks = sorted(self)
        return tuple((k, self[k]) for k in ks), ('keys', tuple(ks))


def dsn_flatten(o):
    ks = sorted(o)
    return [o[k] for k in ks], tuple(ks), tuple(ks)


def dsn_unflatten(meta, ch):
    return DSN(zip(meta, ch))


class Bad:
    """Deliberately malformed custom node (C03 error parity, C15): flatten misbehaves per kind."""

    KINDS = ('len1', 'len4', 'children_int', 'entries_short', 'entries_long', 'entries_int',
             'ret_none', 'raises')

    def __init__(self, kind):
        self.kind = kind

    def __repr__(self):
        return f'Bad({self.kind!r})'

    def _v_fields(self):
        return (), ('kind', self.kind)


class BadFlattenError(Exception):
    pass


def bad_flatten(o):
    k = o.kind
    if k == 'len1':
        return ((),)
    if k == 'len4':
        return ((), None, None, None)
    if k == 'children_int':
        return (5, None)
    if k == 'entries_short':
        return ((1, 2), None, ('a',))
    if k == 'entries_long':
        return ((1,), None, ('a', 'b'))
    if k == 'entries_int':
        return ((1,), None, 7)
    if k == 'ret_none':
        return None
    raise BadFlattenError(k)


def bad_unflatten(meta, ch):
    return Bad('rebuilt')


CUSTOM_CLASSES = (CG, CN, CS, CM, CU, CI, DC, oft.partial, Bad, CSeq, CMap, DCI, CL, DSN, CO)

# (namespace, type) -> (flatten, unflatten, path_entry_type).  '' is the global namespace.
MODEL_REGISTRY: dict = {}
_installed = False


def _cls_flatten(o):
    return o.tree_flatten()


def install():
    global _installed
    if _installed:
        return
    _installed = True
    optree.register_pytree_node_class(CG, namespace=GLOBAL)
    MODEL_REGISTRY[('', CG)] = (_cls_flatten, CG.tree_unflatten, optree.AutoEntry)
    optree.register_pytree_node(CN, cn_flatten, cn_unflatten, path_entry_type=optree.GetAttrEntry,
                                namespace=NS)
    MODEL_REGISTRY[(NS, CN)] = (cn_flatten, cn_unflatten, optree.GetAttrEntry)
    optree.register_pytree_node(CS, cs_flatten_global, cs_unflatten_global,
                                path_entry_type=optree.GetAttrEntry, namespace=GLOBAL)
    MODEL_REGISTRY[('', CS)] = (cs_flatten_global, cs_unflatten_global, optree.GetAttrEntry)
    optree.register_pytree_node(CS, cs_flatten_ns, cs_unflatten_ns,
                                path_entry_type=optree.GetAttrEntry, namespace=NS)
    MODEL_REGISTRY[(NS, CS)] = (cs_flatten_ns, cs_unflatten_ns, optree.GetAttrEntry)
    optree.register_pytree_node_class(CM, namespace=NS)
    MODEL_REGISTRY[(NS, CM)] = (_cls_flatten, CM.tree_unflatten, optree.MappingEntry)
    optree.register_pytree_node_class(CU, namespace=GLOBAL)
    MODEL_REGISTRY[('', CU)] = (_cls_flatten, CU.tree_unflatten, optree.AutoEntry)
    optree.register_pytree_node_class(CI, namespace=GLOBAL)
    MODEL_REGISTRY[('', CI)] = (_cls_flatten, CI.tree_unflatten, optree.AutoEntry)
    optree.register_pytree_node_class(CO, namespace=GLOBAL)
    MODEL_REGISTRY[('', CO)] = (_cls_flatten, CO.tree_unflatten, optree.AutoEntry)
    # registered by the decorators above / at import of optree.functools:
    e = optree.register_pytree_node.get(DC, namespace=NS)
    MODEL_REGISTRY[(NS, DC)] = (e.flatten_func, e.unflatten_func, optree.DataclassEntry)
    MODEL_REGISTRY[('', oft.partial)] = (_cls_flatten, oft.partial.tree_unflatten,
                                         optree.GetAttrEntry)
    optree.register_pytree_node_class(CSeq, namespace=GLOBAL)
    MODEL_REGISTRY[('', CSeq)] = (_cls_flatten, CSeq.tree_unflatten, optree.AutoEntry)
    optree.register_pytree_node_class(CMap, namespace=NS)
    MODEL_REGISTRY[(NS, CMap)] = (_cls_flatten, CMap.tree_unflatten, optree.AutoEntry)
    optree.register_pytree_node(DCI, dci_flatten, dci_unflatten, path_entry_type=optree.DataclassEntry,
                                namespace=GLOBAL)
    MODEL_REGISTRY[('', DCI)] = (dci_flatten, dci_unflatten, optree.DataclassEntry)
    import warnings
    with warnings.catch_warnings():
        warnings.simplefilter('ignore')      # registering a namedtuple class warns (by design)
        optree.register_pytree_node(NTC, ntc_flatten, ntc_unflatten, path_entry_type=optree.GetAttrEntry,
                                    namespace=NS)
    MODEL_REGISTRY[(NS, NTC)] = (ntc_flatten, ntc_unflatten, optree.GetAttrEntry)
    optree.register_pytree_node_class(CL, namespace=GLOBAL)
    MODEL_REGISTRY[('', CL)] = (_cls_flatten, CL.tree_unflatten, optree.GetItemEntry)
    optree.register_pytree_node(DSN, dsn_flatten, dsn_unflatten, path_entry_type=optree.MappingEntry,
                                namespace=NS)
    MODEL_REGISTRY[(NS, DSN)] = (dsn_flatten, dsn_unflatten, optree.MappingEntry)
    # malformed node: registered with optree only (the model never flattens it)
    optree.register_pytree_node(Bad, bad_flatten, bad_unflatten, namespace=GLOBAL)


install()


# ---------------------------------------------------------------- registry histories (C11 / C14)

def unregister(cls, ns):
    """ns: '' for the global namespace"""
    optree.unregister_pytree_node(cls, namespace=GLOBAL if ns == '' else ns)


def register_again(cls, ns):
    fl, un, pet = MODEL_REGISTRY[(ns, cls)]
    if fl is _cls_flatten:
        optree.register_pytree_node_class(cls, namespace=GLOBAL if ns == '' else ns,
                                          path_entry_type=None if pet is optree.AutoEntry else pet)
    else:
        optree.register_pytree_node(cls, fl, un, path_entry_type=pet, namespace=GLOBAL if ns == '' else ns)


VICTIMS = {'CG': (CG, ''), 'CN': (CN, NS), 'CM': (CM, NS), 'CU': (CU, '')}


# ---------------------------------------------------------------- fault injection (C15 / C16 / C17)

class MetaObj:
    """custom-node metadata that is compared by identity (no __eq__): a rebuilt node must carry the very object"""

    __slots__ = ('n',)

    def __init__(self, n):
        self.n = n

    def __repr__(self):
        return f'MetaObj({self.n})'


class Boom(Exception):
    """the injected exception (deliberately not a TypeError/ValueError/RuntimeError)"""


class BoomTypeError(Boom, TypeError):
    """the injected exception, of a built-in type native code is tempted to catch and reinterpret"""


class BoomValueError(Boom, ValueError):
    pass


class BoomRuntimeError(Boom, RuntimeError):
    pass


BOOM_CLASSES = (Boom, BoomTypeError, BoomValueError, BoomRuntimeError)


class Ticker:
    """counts invocations of user callbacks; raises (or calls a hook) at the k-th one"""

    def __init__(self):
        self.reset()

    def reset(self):
        self.count = 0
        self.k = None
        self.exc = None
        self.kinds = []
        self.hook = None
        self.exc_cls = Boom

    def arm(self, k=None, hook=None, exc_cls=None):
        self.count = 0
        self.k = k
        self.exc = None
        self.kinds = []
        self.hook = hook
        self.exc_cls = exc_cls or Boom

    def tick(self, kind):
        self.count += 1
        self.kinds.append(kind)
        if self.hook is not None:
            self.hook(self.count, kind)
        if self.k is not None and self.count == self.k:
            self.exc = getattr(self, 'exc_cls', Boom)(f'{kind}#{self.k}')
            raise self.exc


TICK = Ticker()
NSF = 'fns'     # namespace of the ticking custom node


class FM:
    """custom metadata whose == ticks"""

    __slots__ = ('v',)

    def __init__(self, v):
        self.v = v

    def __eq__(self, other):
        TICK.tick('meta_eq')
        return isinstance(other, FM) and other.v == self.v

    def __ne__(self, other):
        TICK.tick('meta_eq')
        return not (isinstance(other, FM) and other.v == self.v)

    def __hash__(self):
        return hash(('FM', self.v))

    def __repr__(self):
        TICK.tick('meta_repr')
        return f'FM({self.v})'


class FN:
    """custom node (registered in NSF) whose flatten / unflatten functions tick"""

    def __init__(self, ch, meta=None):
        self.ch = list(ch)
        self.meta = meta

    def __getitem__(self, i):
        return self.ch[i]

    def __repr__(self):
        return f'FN({self.ch!r}, {self.meta!r})'

    def _v_fields(self):
        return (('ch', list(self.ch)),), ('meta', self.meta)


def fn_flatten(o):
    TICK.tick('flatten')
    return tuple(o.ch), o.meta


def fn_unflatten(meta, ch):
    TICK.tick('unflatten')
    return FN(ch, meta)


class FK:
    """dict key whose __hash__ / __eq__ / __lt__ tick (total order by n among FK)"""

    __slots__ = ('n',)

    def __init__(self, n):
        self.n = n

    def __hash__(self):
        TICK.tick('key_hash')
        return hash(('FK', self.n))

    def __eq__(self, other):
        TICK.tick('key_eq')
        return isinstance(other, FK) and other.n == self.n

    def __lt__(self, other):
        TICK.tick('key_lt')
        if not isinstance(other, FK):
            return NotImplemented
        return self.n < other.n

    def __repr__(self):
        TICK.tick('key_repr')
        return f'FK({self.n})'


optree.register_pytree_node(FN, fn_flatten, fn_unflatten, namespace=NSF)
MODEL_REGISTRY[(NSF, FN)] = (fn_flatten, fn_unflatten, optree.AutoEntry)
CUSTOM_CLASSES = CUSTOM_CLASSES + (FN,)
