"""Build optree's C++ engine from /repo's *current working tree* and stage an importable package.

Variants
  plain : g++ -O2                                  (default for every functional check)
  asan  : g++ -O1 -g -fsanitize=address,undefined  (C16 / thorough C15)
  fuzz  : clang++-14 sancov inline-8bit-counters   (atheris coverage-guided fuzzing, thorough C16)

The staged package lives in /verif/.build/<variant>-<hash>/pkg/optree (python files copied from
/repo/optree, freshly built _C*.so next to them).  <hash> covers every source, header and python
file plus the flags, so an edited tree is always rebuilt and an unchanged one is reused.
Usage:  python vlib/build.py [variant]   -> prints the pkg directory
"""
from __future__ import annotations

import fcntl
import hashlib
import os
import shutil
import subprocess
import sys
import sysconfig
import tempfile
import time
from concurrent.futures import ThreadPoolExecutor
from pathlib import Path

VERIF = Path(__file__).resolve().parent.parent
REPO = Path(os.environ.get('VERIF_REPO', '/repo'))
BUILD_ROOT = VERIF / '.build'
PYBIND_INC = '/venv/lib/python3.12/site-packages/torch/include'
EXT_SUFFIX = '.cpython-312-x86_64-linux-gnu.so'
PY = '/venv/bin/python'

COMMON = ['-std=c++20', '-fPIC', '-fvisibility=hidden', '-DSOURCE_PATH_PREFIX_SIZE=6', '-w']
VARIANTS = {
    'plain': dict(cxx='g++', cflags=['-O2'], ldflags=[]),
    'asan': dict(
        cxx='g++',
        cflags=['-O1', '-g', '-fno-omit-frame-pointer', '-fsanitize=address,undefined',
                '-fno-sanitize-recover=undefined'],
        ldflags=['-fsanitize=address,undefined'],
    ),
    'fuzz': dict(
        cxx='clang++-14',
        cflags=['-O1', '-g', '-fsanitize-coverage=inline-8bit-counters,pc-table,trace-cmp'],
        ldflags=[],
    ),
}


def _py_include() -> str:
    out = subprocess.run([PY, '-c', 'import sysconfig;print(sysconfig.get_paths()["include"])'],
                         capture_output=True, text=True, check=True)
    return out.stdout.strip()


def _snapshot(dst: Path) -> None:
    """copy everything a build depends on (so that hashing and compiling see the same bytes even
    if /repo is edited while a build is running)"""
    for sub in ('src', 'include'):
        shutil.copytree(REPO / sub, dst / sub)
    shutil.copytree(REPO / 'optree', dst / 'optree',
                    ignore=shutil.ignore_patterns('*.so', '__pycache__', '*.pyc'))


def sources(root: Path) -> list[Path]:
    return sorted((root / 'src').glob('*.cpp')) + sorted((root / 'src' / 'treespec').glob('*.cpp'))


def tree_hash(variant: str, root: Path) -> str:
    h = hashlib.sha256()
    h.update(repr((variant, VARIANTS[variant], COMMON)).encode())
    files = sources(root) + sorted((root / 'include').rglob('*.h')) + sorted((root / 'optree').rglob('*.py'))
    for f in files:
        h.update(str(f.relative_to(root)).encode())
        h.update(f.read_bytes())
    return h.hexdigest()[:16]


def build(variant: str = 'plain', quiet: bool = True) -> Path:
    """Return the directory to put on PYTHONPATH (contains optree/)."""
    spec = VARIANTS[variant]
    BUILD_ROOT.mkdir(exist_ok=True)
    lock = open(BUILD_ROOT / f'.lock-{variant}', 'w')
    fcntl.flock(lock, fcntl.LOCK_EX)
    snap = Path(tempfile.mkdtemp(prefix=f'snap-{variant}-', dir=str(BUILD_ROOT)))
    try:
        _snapshot(snap)
        digest = tree_hash(variant, snap)
        out = BUILD_ROOT / f'{variant}-{digest}'
        pkg = out / 'pkg'
        done = out / 'DONE'
        if done.exists():
            return pkg
        t0 = time.time()
        if out.exists():
            shutil.rmtree(out)
        # drop stale builds of this variant (disk is limited)
        olds = sorted((d for d in BUILD_ROOT.glob(f'{variant}-*') if d != out),
                      key=lambda d: d.stat().st_mtime)
        for old in olds[:-8]:   # keep a few recent other builds (clean tree + patched copies other runs may be using)
            shutil.rmtree(old, ignore_errors=True)
        obj = out / 'obj'
        obj.mkdir(parents=True)
        # -ffile-prefix-map keeps __FILE__ (used in error messages) independent of the snapshot location
        inc = ['-I', str(snap / 'include'), '-isystem', PYBIND_INC, '-isystem', _py_include(),
               f'-ffile-prefix-map={snap}=/repo']

        # object files are cached by content (flags + this source + every header): a tree that differs
        # only in python files, or in one .cpp, recompiles nothing / one file
        hh = hashlib.sha256(repr((variant, spec, COMMON)).encode())
        for f in sorted((snap / 'include').rglob('*.h')):
            hh.update(str(f.relative_to(snap)).encode())
            hh.update(f.read_bytes())
        header_digest = hh.hexdigest()
        ocache = BUILD_ROOT / 'objcache' / variant
        ocache.mkdir(parents=True, exist_ok=True)

        def cc(src: Path) -> Path:
            key = hashlib.sha256((header_digest + str(src.relative_to(snap))).encode() + src.read_bytes()).hexdigest()[:24]
            cached = ocache / (key + '.o')
            if cached.exists():
                os.utime(cached)
                return cached
            o = obj / (src.stem + '.o')
            cmd = [spec['cxx'], *COMMON, *spec['cflags'], *inc, '-c', str(src), '-o', str(o)]
            r = subprocess.run(cmd, capture_output=True, text=True)
            if r.returncode != 0:
                raise RuntimeError(f'compile failed: {src}\n{r.stderr[-4000:]}')
            tmp = ocache / (key + f'.{os.getpid()}.tmp')
            shutil.copyfile(o, tmp)
            os.replace(tmp, cached)
            return cached

        with ThreadPoolExecutor(16) as ex:
            objs = list(ex.map(cc, sources(snap)))
        dst = pkg / 'optree'
        shutil.copytree(snap / 'optree', dst)
        so = dst / ('_C' + EXT_SUFFIX)
        r = subprocess.run([spec['cxx'], '-shared', '-o', str(so), *map(str, objs), *spec['ldflags']],
                           capture_output=True, text=True)
        if r.returncode != 0:
            raise RuntimeError(f'link failed\n{r.stderr[-4000:]}')
        shutil.rmtree(obj)
        for stale in sorted(ocache.glob('*.o'), key=lambda f: f.stat().st_mtime)[:-150]:
            stale.unlink(missing_ok=True)
        if variant == 'fuzz':
            rt = out / 'libfuzzer_rt.so'
            a = subprocess.run(['clang-14', '-print-file-name=libclang_rt.fuzzer_no_main-x86_64.a'],
                               capture_output=True, text=True, check=True).stdout.strip()
            r = subprocess.run(['clang++-14', '-shared', '-o', str(rt), '-Wl,--whole-archive', a,
                                '-Wl,--no-whole-archive', '-lpthread', '-ldl'],
                               capture_output=True, text=True)
            if r.returncode != 0:
                raise RuntimeError(f'fuzzer runtime link failed\n{r.stderr[-2000:]}')
        done.write_text(f'{time.time() - t0:.1f}s\n')
        if not quiet:
            print(f'[build] {variant} {digest} built in {time.time() - t0:.1f}s', file=sys.stderr)
        return pkg
    finally:
        shutil.rmtree(snap, ignore_errors=True)
        fcntl.flock(lock, fcntl.LOCK_UN)
        lock.close()


def env_for(variant: str, pkg: Path) -> dict[str, str]:
    """Environment for a child interpreter that must import the staged package."""
    env = dict(os.environ)
    extra = [str(pkg), str(VERIF), str(VERIF / '.deps')]
    env['PYTHONPATH'] = os.pathsep.join(extra)
    env.setdefault('PYTHONHASHSEED', '0')
    env['VERIF_PKG'] = str(pkg)
    env['PYTHONDONTWRITEBYTECODE'] = '1'
    if variant == 'asan':
        libasan = subprocess.run(['g++', '-print-file-name=libasan.so'], capture_output=True,
                                 text=True, check=True).stdout.strip()
        # libstdc++ must be loaded together with the ASan runtime: the python binary does not link
        # it, and ASan's __cxa_throw interceptor resolves the real symbol at start-up
        libstdcxx = subprocess.run(['g++', '-print-file-name=libstdc++.so'], capture_output=True,
                                   text=True, check=True).stdout.strip()
        env['LD_PRELOAD'] = f'{libasan}:{libstdcxx}'
        env['ASAN_OPTIONS'] = 'detect_leaks=0:abort_on_error=1:allocator_may_return_null=1:handle_segv=1'
        env['UBSAN_OPTIONS'] = 'print_stacktrace=1:halt_on_error=1'
        env['PYTHONMALLOC'] = 'malloc'
    if variant == 'fuzz':
        env['LD_PRELOAD'] = str(pkg.parent / 'libfuzzer_rt.so')
    return env


if __name__ == '__main__':
    v = sys.argv[1] if len(sys.argv) > 1 else 'plain'
    print(build(v, quiet=False))
