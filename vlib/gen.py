"""Generators: Hypothesis strategies produce JSON-able *descriptions*; build() makes the objects.

Description grammar (lists only, so json round-trips exactly):
  ["L", n]                       fresh Leaf(n)
  ["i", n] ["s", str] ["f", x]    int / str / float leaf
  ["sub", name]                  subclass-of-builtin instance (a leaf)
  ["none"]
  ["tuple", [c..]] ["list", [c..]]
  ["dict", [[key, c]..], hist]   hist = list of history ops applied after construction
  ["od",   [[key, c]..], hist]
  ["dd", factory, [[key, c]..], hist]
  ["deque", [c..], maxlen_mode, hist]      maxlen_mode: "none" | "len" | "len+2" | "zero"(only when empty)
  ["nt", name, [c..]] ["ss", name, [c..]]
  ["cg", [c..], tag] ["cn", x, y, meta] ["cs", a, b] ["cm", [[s, c]..]] ["cu", [c..], meta]
  ["cq", [c..]] ["cp", [[s, c]..]]   Sequence / Mapping subclasses registered with AutoEntry
  ["bad", kind]                  malformed custom node (error parity)
  ["ci", [c..]] ["dc", x, y, tag] ["partial", fname, [c..], [[kw, c]..]]
Keys:  ["i",n] ["s",str] ["f",x] ["b",bool] ["by",str] ["n"] ["t",[key..]] ["fs",[int..]] ["KO",n] ["K",n]
       ["NZ",n] ["NB",n] (user key classes Alpha.Zed / Beta: qualname order differs from name order) ["FK",n] (ticking key)
History ops:  ["reinsert", i]  (pop the i-th key (mod len) and insert it again at the end)
              ["mte", i, last] (OrderedDict.move_to_end)   ["popitem"] (popitem + reinsert)
              ["auto", key]    (defaultdict auto-insertion through d[key]; factory must not be None)
              ["rot", n]       (deque.rotate)     ["app", c] (deque.append, drops from the left at maxlen)
"""
from __future__ import annotations

import json
from collections import OrderedDict, defaultdict, deque

from hypothesis import strategies as st

from vlib import universe as U

# ---------------------------------------------------------------- building


def build_key(kd):
    t = kd[0]
    if t == 'i':
        return int(kd[1])
    if t == 's':
        return str(kd[1])
    if t == 'f':
        return float(kd[1])
    if t == 'b':
        return bool(kd[1])
    if t == 'by':
        return kd[1].encode()
    if t == 'n':
        return None
    if t == 't':
        return tuple(build_key(k) for k in kd[1])
    if t == 'fs':
        return frozenset(kd[1])
    if t == 'KO':
        return U.KO(kd[1])
    if t == 'K':
        return U.K(kd[1])
    if t == 'FK':
        return U.FK(kd[1])
    if t == 'NZ':
        return U.Alpha.Zed(kd[1])
    if t == 'NB':
        return U.Beta(kd[1])
    if t == 'nan':
        return float('nan')      # a key that is not equal to itself (only where a check asks for it: C04)
    raise ValueError(kd)


def _apply_dict_hist(d, hist, factory=None):
    for op in hist:
        if op[0] == 'reinsert' and len(d):
            k = list(d)[op[1] % len(d)]
            v = d.pop(k)
            d[k] = v
        elif op[0] == 'mte' and len(d) and isinstance(d, OrderedDict):
            k = list(d)[op[1] % len(d)]
            d.move_to_end(k, last=bool(op[2]))
        elif op[0] == 'popitem' and len(d):
            k, v = d.popitem()
            d[k] = v
            if isinstance(d, OrderedDict):
                d.move_to_end(k, last=False)
        elif op[0] == 'auto' and isinstance(d, defaultdict) and d.default_factory is not None:
            d[build_key(op[1])]  # noqa: B018  auto-insertion
    return d


def build(desc):
    """Deterministically build fresh Python objects from a description."""
    t = desc[0]
    if t == 'L':
        return U.Leaf(desc[1])
    if t == 'i':
        return int(desc[1])
    if t == 's':
        return str(desc[1])
    if t == 'f':
        return float(desc[1])
    if t == 'sub':
        return U.SUBCLASS_LEAVES[desc[1]]()
    if t == 'arr':
        return ARRAY_FACTORY(desc)     # set by the C20 check (backend specific)
    if t == 'none':
        return None
    if t == 'tuple':
        return tuple(build(c) for c in desc[1])
    if t == 'list':
        return [build(c) for c in desc[1]]
    if t == 'dict':
        d = {}
        for k, c in desc[1]:
            d[build_key(k)] = build(c)
        return _apply_dict_hist(d, desc[2])
    if t == 'od':
        d = OrderedDict()
        for k, c in desc[1]:
            d[build_key(k)] = build(c)
        return _apply_dict_hist(d, desc[2])
    if t == 'dd':
        d = defaultdict(U.FACTORIES[desc[1]] if desc[1] in U.FACTORIES else U.FACTORIES_EXTRA[desc[1]])
        for k, c in desc[2]:
            d[build_key(k)] = build(c)
        return _apply_dict_hist(d, desc[3])
    if t == 'deque':
        ch = [build(c) for c in desc[1]]
        mode = desc[2]
        maxlen = {'none': None, 'len': len(ch), 'len+2': len(ch) + 2, 'zero': 0, 'big': 1000 + len(ch)}[mode]   # big: not a cached small int
        if mode == 'zero':
            ch = []
        dq = deque(ch, maxlen=maxlen)
        for op in desc[3]:
            if op[0] == 'rot':
                dq.rotate(op[1])
            elif op[0] == 'app':
                dq.append(build(op[1]))
        return dq
    if t == 'nt':
        return U.NAMEDTUPLES[desc[1]](*[build(c) for c in desc[2]])
    if t == 'ss':
        return U.STRUCTSEQS[desc[1]]([build(c) for c in desc[2]])
    if t == 'cg':
        return U.CG(*[build(c) for c in desc[1]], tag=_meta(desc[2]))
    if t == 'cn':
        return U.CN(build(desc[1]), build(desc[2]), _meta(desc[3]))
    if t == 'cs':
        return U.CS(build(desc[1]), build(desc[2]))
    if t == 'cm':
        return U.CM([(k, build(c)) for k, c in desc[1]])
    if t == 'cu':
        return U.CU([build(c) for c in desc[1]], desc[2])
    if t == 'ci':
        return U.CI(*[build(c) for c in desc[1]])
    if t == 'co':
        return U.CO(*[build(c) for c in desc[1]])
    if t == 'dc':
        return U.DC(build(desc[1]), build(desc[2]), _meta(desc[3]))
    if t == 'dci':
        return U.DCI(build(desc[1]), build(desc[2]))
    if t == 'ntc':
        return U.NTC(build(desc[1]), build(desc[2]))
    if t == 'cl':
        return U.CL([build(c) for c in desc[1]])
    if t == 'dsn':
        return U.DSN([(k, build(c)) for k, c in desc[1]])
    if t == 'wrap':
        # ["wrap", "kind,kind,..", depth, inner]: `depth` nested one-child containers around inner (built iteratively)
        x = build(desc[3])
        kinds = desc[1].split(',')          # (a string, so that generic walkers do not take it for a node)
        for d in range(desc[2]):
            k = kinds[d % len(kinds)]
            if k == 'list':
                x = [x]
            elif k == 'tuple':
                x = (x,)
            elif k == 'dict':
                x = {'w': x}
            elif k == 'od':
                x = OrderedDict(w=x)
            elif k == 'dd':
                x = defaultdict(int, w=x)
            elif k == 'deque':
                x = deque([x])
            elif k == 'nt':
                x = U.NT1(x)
            elif k == 'cg':
                x = U.CG(x)
            elif k == 'ci':
                x = U.CI(x)
        return x
    if t == 'bad':
        return U.Bad(desc[1])
    if t == 'fn':
        return U.FN([build(c) for c in desc[1]], U.FM(desc[2]) if desc[2] is not None else None)
    if t == 'cq':
        return U.CSeq(*[build(c) for c in desc[1]])
    if t == 'cp':
        return U.CMap([(k, build(c)) for k, c in desc[1]])
    if t == 'partial':
        import optree.functools as oft
        return oft.partial(U.FUNCS[desc[1]], *[build(c) for c in desc[2]],
                           **{k: build(c) for k, c in desc[3]})
    raise ValueError(desc)


def _meta(m):
    # JSON has no tuples; metadata lists of length 2 starting with "tup" become tuples
    if isinstance(m, list) and m and m[0] == 'tup':
        return tuple(m[1:])
    if isinstance(m, list) and m and m[0] == 'obj':
        return U.MetaObj(m[1])      # identity-compared metadata (only where a check asks for it: C01)
    return m


def with_object_metadata(desc, counter=None):
    """copy of a description in which the metadata of cg / cn / dc nodes are identity-compared objects"""
    counter = counter if counter is not None else [0]
    if not isinstance(desc, list) or not desc or not isinstance(desc[0], str):
        return desc
    t = desc[0]
    out = [with_object_metadata(x, counter) if isinstance(x, list) else x for x in desc]
    if t in ('cn', 'dc') and len(out) == 4:
        counter[0] += 1
        out[3] = ['obj', counter[0]]
    elif t == 'cg' and len(out) == 3:
        counter[0] += 1
        out[2] = ['obj', counter[0]]
    elif t in ('dict', 'od', 'cm', 'cp', 'dsn'):
        out[1] = [[k, with_object_metadata(v, counter)] for k, v in desc[1]]
    elif t == 'dd':
        out[2] = [[k, with_object_metadata(v, counter)] for k, v in desc[2]]
    return out


def canon(desc) -> str:
    return json.dumps(desc, sort_keys=False, separators=(',', ':'))


# ---------------------------------------------------------------- strategies

def leaf_descs():
    return st.one_of(
        st.integers(0, 99).map(lambda n: ['L', n]),
        st.integers(0, 99).map(lambda n: ['L', n]),
        st.integers(-3, 3).map(lambda n: ['i', n]),
        st.sampled_from(['s', 'tt']).map(lambda s: ['s', s]),
        st.sampled_from([0.5, -1.25, 2.0]).map(lambda x: ['f', x]),
        st.sampled_from(sorted(U.SUBCLASS_LEAVES)).map(lambda n: ['sub', n]),
    )


def sortable_atom_keys():
    return st.one_of(
        st.integers(-2, 6).map(lambda n: ['i', n]),
        st.sampled_from(list('abcdez')).map(lambda s: ['s', s]),
    )


def key_descs(total_only=False):
    """Keys.  total_only: only key kinds whose mixes are totally ordered under the documented rule."""
    base = [
        st.integers(-2, 6).map(lambda n: ['i', n]),
        st.integers(-2, 6).map(lambda n: ['i', n]),
        st.sampled_from(list('abcdez')).map(lambda s: ['s', s]),
        st.sampled_from(list('abcdez')).map(lambda s: ['s', s]),
        st.sampled_from([0.5, -1.5, 2.5, 7.25]).map(lambda x: ['f', x]),
        st.sampled_from(['', 'x', 'y']).map(lambda s: ['by', s]),
        st.just(['n']),
        st.lists(sortable_atom_keys().filter(lambda k: k[0] == 'i'), max_size=2).map(lambda ks: ['t', ks]),
        st.integers(0, 4).map(lambda n: ['KO', n]),
        st.integers(0, 2).map(lambda n: ['NZ', n]),      # nested class: qualname 'Alpha.Zed'
        st.integers(0, 2).map(lambda n: ['NB', n]),      # module-level class 'Beta'
    ]
    if not total_only:
        base += [
            st.booleans().map(lambda b: ['b', b]),
            st.lists(st.integers(0, 2), max_size=2, unique=True).map(lambda xs: ['fs', sorted(xs)]),
            st.integers(0, 3).map(lambda n: ['K', n]),
            st.lists(sortable_atom_keys(), max_size=2).map(lambda ks: ['t', ks]),
        ]
    return st.one_of(*base)


def _uniq_items(items):
    """Drop items whose *built* key duplicates an earlier one (1 == 1.0 == True)."""
    seen = set()
    out = []
    nan_seen = False
    for k, c in items:
        if k[0] == 'nan':            # at most one NaN key per dict (two NaN objects are two different keys)
            if nan_seen:
                continue
            nan_seen = True
        bk = build_key(k)
        try:
            if bk in seen:
                continue
        except TypeError:
            continue
        seen.add(bk)
        out.append([k, c])
    return out


def dict_hist(kind):
    ops = [st.integers(0, 5).map(lambda i: ['reinsert', i]), st.just(['popitem'])]
    if kind == 'od':
        ops.append(st.tuples(st.integers(0, 5), st.booleans()).map(lambda t: ['mte', t[0], t[1]]))
    if kind == 'dd':
        ops.append(key_descs(total_only=True).map(lambda k: ['auto', k]))
    return st.one_of(st.just([]), st.just([]), st.lists(st.one_of(*ops), min_size=1, max_size=3))


META = st.sampled_from([None, 'm', 3, ['tup', 1, 2]])


ALL_KINDS = ('tuple', 'list', 'dict', 'od', 'dd', 'deque', 'nt', 'ss', 'cg', 'cn', 'cs', 'cm', 'cu',
             'ci', 'dc', 'partial', 'cq', 'cp', 'dci', 'ntc', 'cl', 'dsn', 'co')
_WEIGHT = {'tuple': 3, 'list': 3, 'dict': 4, 'od': 3, 'dd': 3, 'deque': 2, 'nt': 2}
_LEAF = leaf_descs()
_META = META
_HIST = {k: dict_hist(k) for k in ('dict', 'od', 'dd')}
_DEQUE_MODE = st.sampled_from(['none', 'none', 'len', 'len+2', 'big'])
_FACT = st.sampled_from(sorted(U.FACTORIES))


def _split(draw, budget, k):
    """split budget (>=k) into k positive parts"""
    if k == 0:
        return []
    parts = [1] * k
    for _ in range(budget - k):
        parts[draw(st.integers(0, k - 1))] += 1
    return parts


def _node(draw, budget, depth, keys, kinds, max_depth, leaf=None):
    leaf = leaf if leaf is not None else _LEAF
    if budget <= 1 or depth >= max_depth:
        if draw(st.integers(0, 9)) == 0:
            return ['none']
        if budget <= 1 and depth < max_depth and draw(st.integers(0, 7)) == 0:
            pass  # fall through: an internal node with few/no children
        else:
            return draw(leaf)
    pool = []
    for kname in kinds:
        pool += [kname] * _WEIGHT.get(kname, 1)
    kind = draw(st.sampled_from(pool))
    rec = lambda b: _node(draw, b, depth + 1, keys, kinds, max_depth, leaf)  # noqa: E731

    def kids(maxk=4, mink=0):
        if budget >= 2:
            mink = max(mink, 1)     # a node with budget for leaves gets at least one child
        k = draw(st.integers(mink, max(mink, min(maxk, budget))))
        return [rec(b) for b in _split(draw, max(budget, k), k)]

    def items(keystrat):
        ch = kids()
        its = [[draw(keystrat), c] for c in ch]
        return _uniq_items(its)

    if kind in ('tuple', 'list'):
        return [kind, kids()]
    if kind == 'dict':
        return ['dict', items(keys), draw(_HIST['dict'])]
    if kind == 'od':
        return ['od', items(keys), draw(_HIST['od'])]
    if kind == 'dd':
        f = draw(_FACT)
        h = draw(_HIST['dd'])
        if f == 'None':
            h = [o for o in h if o[0] != 'auto']
        return ['dd', f, items(keys), h]
    if kind == 'deque':
        ch = kids(3)
        hist = []
        for _ in range(draw(st.sampled_from([0, 0, 1, 2]))):
            if draw(st.booleans()):
                hist.append(['rot', draw(st.integers(-2, 2))])
            else:
                hist.append(['app', draw(leaf)])
        return ['deque', ch, draw(_DEQUE_MODE), hist]
    if kind == 'nt':
        name = draw(st.sampled_from(['NT0', 'NT1', 'NT2', 'NT2', 'NTSub']))
        ar = {'NT0': 0, 'NT1': 1, 'NT2': 2, 'NTSub': 2}[name]
        return ['nt', name, [rec(b) for b in _split(draw, max(budget, ar), ar)]]
    if kind == 'ss':
        name = draw(st.sampled_from(['terminal_size', 'terminal_size', 'times_result']))
        ar = U.STRUCTSEQ_ARITY[name]
        return ['ss', name, [rec(b) for b in _split(draw, max(budget, ar), ar)]]
    if kind == 'cg':
        return ['cg', kids(3), draw(_META)]
    if kind in ('cn', 'dc'):
        a, b = [rec(x) for x in _split(draw, max(budget, 2), 2)]
        return [kind, a, b, draw(_META)]
    if kind in ('cs', 'dci', 'ntc'):
        a, b = [rec(x) for x in _split(draw, max(budget, 2), 2)]
        return [kind, a, b]
    if kind == 'cm':
        ch = kids(3)
        names = draw(st.permutations(list('xyzw')))
        return ['cm', [[names[i], c] for i, c in enumerate(ch)]]
    if kind == 'cu':
        return ['cu', kids(3), draw(st.lists(st.integers(0, 2), max_size=2))]
    if kind == 'ci':
        return ['ci', kids(3)]
    if kind == 'co':
        return ['co', kids(3)]
    if kind == 'fn':
        return ['fn', kids(3), draw(st.sampled_from([None, 1, 2]))]
    if kind == 'cq':
        return ['cq', kids(3)]
    if kind == 'cl':
        return ['cl', kids(4)]
    if kind == 'dsn':
        ch = kids(3)
        names = draw(st.permutations(list('xyzw')))
        return ['dsn', [[names[i], c] for i, c in enumerate(ch)]]
    if kind == 'cp':
        ch = kids(3)
        names = draw(st.permutations(list('xyzw')))
        return ['cp', [[names[i], c] for i, c in enumerate(ch)]]
    if kind == 'partial':
        ch = kids(4)
        na = draw(st.integers(0, len(ch)))
        names = draw(st.permutations(['k', 'a', 'z', 'q']))
        return ['partial', draw(st.sampled_from(sorted(U.FUNCS))), ch[:na],
                [[names[i], c] for i, c in enumerate(ch[na:])]]
    raise AssertionError(kind)


@st.composite
def tree_descs(draw, max_leaves=12, keys=None, kinds=None, max_depth=6, min_leaves=1, leaf=None):
    """Tree descriptions by explicit size budget (construction, no rejection)."""
    keys = keys if keys is not None else key_descs()
    kinds = tuple(kinds) if kinds is not None else ALL_KINDS
    budget = draw(st.integers(min_leaves, max_leaves))
    return _node(draw, budget, 0, keys, kinds, max_depth, leaf)


@st.composite
def partially_comparable_dicts(draw):
    """a dict / defaultdict whose tuple keys defeat both sorting attempts only *after* some elements were moved:
    keys that compare fine pairwise except for one pair - ('b', 1) < ('b', 'x') raises, ('a', 0) < ('b', 1) does not"""
    pool = [[['s', 'b'], ['i', 1]], [['s', 'a'], ['i', 0]], [['s', 'b'], ['s', 'x']], [['s', 'a'], ['s', 'y']],
            [['i', 2], ['n']], [['i', 1], ['i', 5]], [['i', 2], ['i', 3]], [['s', 'c'], ['i', 2]], [['i', 0], ['s', 'q']]]
    keys = [['t', k] for k in draw(st.permutations(pool))[:draw(st.integers(3, 5))]]
    items = [[k, draw(leaf_descs()) if draw(st.booleans()) else ['tuple', [draw(leaf_descs()), draw(leaf_descs())]]] for k in keys]
    if draw(st.integers(0, 2)) == 0:
        node = ['dd', draw(_FACT), items, []]
    else:
        node = ['dict', items, []]
    outer = draw(st.sampled_from(['bare', 'list', 'dict']))
    if outer == 'bare':
        return node
    if outer == 'list':
        return ['list', [draw(leaf_descs()), node]]
    return ['dict', [[['s', 'z'], node], [['s', 'b'], draw(leaf_descs())]], []]


@st.composite
def with_childless_twins(draw, inner):
    """a container holding `inner` next to two or three *childless* nodes of one kind whose metadata differs (empty
    deques with different maxlen, empty defaultdicts with different factories, empty custom nodes with different
    metadata, the field-less namedtuple next to an empty tuple): everything per-node must stay per node"""
    t = draw(inner)
    fam = draw(st.sampled_from(['deque', 'dd', 'cg', 'mixed']))
    if fam == 'deque':
        twins = [['deque', [], m, []] for m in draw(st.permutations(['none', 'zero', 'len+2', 'big']))[:draw(st.integers(2, 3))]]
    elif fam == 'dd':
        twins = [['dd', f, [], []] for f in draw(st.permutations(sorted(U.FACTORIES)))[:draw(st.integers(2, 3))]]
    elif fam == 'cg':
        twins = [['cg', [], m] for m in draw(st.permutations([None, 'm', 3]))[:2]]
    else:
        twins = [['nt', 'NT0', []], ['tuple', []], ['list', []], ['deque', [], 'none', []], ['deque', [], 'zero', []]]
    kids = draw(st.permutations([t] + twins))
    if draw(st.booleans()):
        return ['tuple', list(kids)]
    return ['dict', [[['s', 'abcdez'[i]], k] for i, k in enumerate(kids)], []]


def contains_tag(desc, tags):
    if isinstance(desc, list):
        if desc and isinstance(desc[0], str) and desc[0] in tags:
            return True
        return any(contains_tag(x, tags) for x in desc)
    return False


def sound_cfg(case):
    """Keep predicates inside the property's domain *by construction*: optree.functools.partial
    destructures its children (args tuple, keywords dict), so predicates that can turn exactly
    those containers into leaves are replaced (a custom node whose unflatten needs structured
    children is outside 'leaf-typed replacement' / identity preservation)."""
    cfg = case['cfg']
    if cfg['pred'] in ('tuple2', 'dict_has_a', 'anydict_has_a', 'holds_one_int', 'marker3') and any(
            contains_tag(case[k], ('partial',)) for k in case if k != 'cfg'):
        cfg = dict(cfg, pred='none')
    return cfg


# ---------------------------------------------------------------- configurations

# Predicate family P: functions of type / shape / key set / leaf value only (never identity).
PREDICATES = {
    'none': None,
    'never': lambda x: False,
    'always': lambda x: True,
    'tuple2': lambda x: type(x) is tuple and len(x) == 2,
    'listsub': lambda x: isinstance(x, U.ListSub),
    'dict_has_a': lambda x: type(x) is dict and 'a' in x,
    'anydict_has_a': lambda x: type(x) in (dict, OrderedDict, defaultdict) and 'a' in x,
    'leaf_even': lambda x: isinstance(x, U.Leaf) and x.n % 2 == 0,
    'is_cg': lambda x: type(x) is U.CG,
    'is_nt2': lambda x: type(x) is U.NT2,
    'deque_or_od': lambda x: type(x) in (deque, OrderedDict),
    'none_obj': lambda x: x is None,
    'int_leaf': lambda x: type(x) is int,
    'holds_one_int': lambda x: _holds_one_int(x),
    'is_list': lambda x: type(x) is list,
    # a marker value that *would* be traversed (a 3-tuple) unless the predicate is forwarded to every internal flatten
    'marker3': lambda x: type(x) is tuple and len(x) == 3 and x[0] == '\u00a7',
}


def _holds_one_int(x):
    """a container whose only child is an int (the innermost container of a deep chain)"""
    try:
        if isinstance(x, (list, tuple, deque)):
            return len(x) == 1 and type(x[0]) is int
        if isinstance(x, dict):
            return len(x) == 1 and type(next(iter(x.values()))) is int
        ch = getattr(x, 'ch', None)
        return isinstance(ch, list) and len(ch) == 1 and type(ch[0]) is int
    except Exception:  # noqa: BLE001
        return False
# predicates whose value depends only on the (type, arity, key set) of a node => "structure determined"
STRUCTURAL_PREDICATES = ['none', 'never', 'tuple2', 'dict_has_a', 'is_cg', 'is_nt2', 'deque_or_od']


def configs(predicates=None):
    """cfg = dict(nil, ns, pred, mode) ; mode: 'sorted' | 'ins_global' | 'ins_ns'"""
    preds = list(predicates) if predicates is not None else sorted(PREDICATES)
    return st.fixed_dictionaries({
        'nil': st.booleans(),
        'ns': st.sampled_from(['', U.NS, U.NS, U.NS_UNKNOWN]),
        'pred': st.one_of(st.just('none'), st.sampled_from(preds)),
        'mode': st.sampled_from(['sorted', 'sorted', 'ins_global', 'ins_ns']),
    })


class ModeCtx:
    """Enter the dict-order mode of a cfg."""

    def __init__(self, cfg):
        self.cfg = cfg
        self.cm = None

    def __enter__(self):
        import optree
        mode, ns = self.cfg['mode'], self.cfg['ns']
        if mode == 'ins_global':
            self.cm = optree.dict_insertion_ordered(True, namespace=U.GLOBAL)
        elif mode == 'ins_ns' and ns:
            self.cm = optree.dict_insertion_ordered(True, namespace=ns)
        if self.cm is not None:
            self.cm.__enter__()
        return self

    def __exit__(self, *a):
        if self.cm is not None:
            self.cm.__exit__(*a)
        return False


def insertion_mode(cfg) -> bool:
    return cfg['mode'] == 'ins_global' or (cfg['mode'] == 'ins_ns' and bool(cfg['ns']))


def kw(cfg):
    """keyword arguments for optree calls"""
    d = {'none_is_leaf': cfg['nil'], 'namespace': cfg['ns']}
    p = PREDICATES[cfg['pred']]
    if p is not None:
        d['is_leaf'] = p
    return d


# ---------------------------------------------------------------- description surgery and pairs
import copy as _copy  # noqa: E402

LEAF_TAGS = ('L', 'i', 's', 'f', 'sub', 'arr')
ARRAY_FACTORY = None


def children_refs(desc):
    """[(container, index)] such that container[index] is a child tree description of this node"""
    t = desc[0]
    if t in ('tuple', 'list', 'deque', 'cg', 'cu', 'ci', 'cq', 'fn', 'cl', 'co'):
        return [(desc[1], i) for i in range(len(desc[1]))]
    if t in ('nt', 'ss'):
        return [(desc[2], i) for i in range(len(desc[2]))]
    if t in ('dict', 'od', 'cm', 'cp', 'dsn'):
        return [(kc, 1) for kc in desc[1]]
    if t == 'dd':
        return [(kc, 1) for kc in desc[2]]
    if t in ('cn', 'dc', 'cs', 'dci', 'ntc'):
        return [(desc, 1), (desc, 2)]
    if t == 'wrap':
        return [(desc, 3)]
    if t == 'partial':
        return [(desc[2], i) for i in range(len(desc[2]))] + [(kc, 1) for kc in desc[3]]
    return []


def walk_refs(desc):
    """yield (container, index) for every node of the tree description, root first"""
    root = [desc]
    stack = [(root, 0)]
    while stack:
        c, i = stack.pop()
        yield c, i
        stack.extend(reversed(children_refs(c[i])))


def count_leaves(desc):
    return sum(1 for c, i in walk_refs(desc) if c[i][0] in LEAF_TAGS)


def substitute_leaves(draw, desc, sub, prob_num=1, prob_den=3, at_least_one=False, none_too=False):
    """replace some leaf positions by drawn subtrees (makes `desc` a prefix of the result); with none_too also
    the None positions, which are leaves under none_is_leaf=True (and a conflict under none_is_leaf=False)"""
    d = _copy.deepcopy(desc)
    root = [d]
    tags = LEAF_TAGS + ('none',) if none_too else LEAF_TAGS
    refs = []
    stack = [(root, 0)]
    while stack:
        c, i = stack.pop()
        if c[i][0] in tags:
            refs.append((c, i))
        stack.extend(reversed(children_refs(c[i])))
    done = 0
    for c, i in refs:
        if draw(st.integers(1, prob_den)) <= prob_num:
            c[i] = draw(sub)
            done += 1
    if at_least_one and not done and refs:
        c, i = refs[draw(st.integers(0, len(refs) - 1))]
        c[i] = draw(sub)
    return root[0]



def leaf_refs(desc_copy):
    """(root holder, [(container, index)] of leaf positions) of an already copied description"""
    root = [desc_copy]
    refs = []
    stack = [(root, 0)]
    while stack:
        c, i = stack.pop()
        if c[i][0] in LEAF_TAGS:
            refs.append((c, i))
        stack.extend(reversed(children_refs(c[i])))
    return root, refs


def substitute_masked(draw, desc, subs, mask, bit):
    """replace the leaf positions i with mask[i] & bit by the pre-drawn subtrees subs[i]"""
    root, refs = leaf_refs(_copy.deepcopy(desc))
    for j, (c, i) in enumerate(refs):
        if j < len(mask) and mask[j] & bit:
            c[i] = _copy.deepcopy(subs[j])
    return root[0]


def _node_refs(d):
    root = [d]
    out = []
    stack = [(root, 0)]
    while stack:
        c, i = stack.pop()
        out.append((c, i))
        stack.extend(reversed(children_refs(c[i])))
    return root, out


def dict_variant(draw, desc):
    """every dict-like node: random key permutation + random kind; deques: other maxlen mode"""
    root, refs = _node_refs(_copy.deepcopy(desc))
    for c, i in refs:
        n = c[i]
        t = n[0]
        if t in ('dict', 'od', 'dd'):
            items = n[1] if t != 'dd' else n[2]
            hist = n[2] if t != 'dd' else n[3]
            if any(op[0] == 'auto' for op in hist):
                continue   # auto-inserted keys are part of the key set: keep the node as is
            perm = draw(st.permutations(list(range(len(items)))))
            items = [items[j] for j in perm]
            nt = draw(st.sampled_from(['dict', 'od', 'dd']))
            if nt == 'dd':
                c[i] = ['dd', draw(_FACT), items, []]
            else:
                c[i] = [nt, items, []]
        elif t == 'deque':
            c[i] = ['deque', n[1], draw(st.sampled_from(['none', 'len', 'len+2', 'big'])), []]
    return root[0]


def order_variant(draw, desc):
    """every dict-like node: random key permutation, *same* kind (matters for OrderedDict and for
    dict / defaultdict in insertion-ordered mode)"""
    root, refs = _node_refs(_copy.deepcopy(desc))
    for c, i in refs:
        n = c[i]
        if n[0] in ('dict', 'od', 'dd'):
            slot = 2 if n[0] == 'dd' else 1
            if any(op[0] == 'auto' for op in n[slot + 1]):
                continue
            perm = draw(st.permutations(list(range(len(n[slot])))))
            n[slot] = [n[slot][j] for j in perm]
            n[slot + 1] = []
    return root[0]


NEAR_MISS_EDITS = ('list_tuple', 'arity_plus', 'arity_minus', 'key_rename', 'key_add', 'key_remove',
                   'nt_swap', 'meta_change', 'node_to_leaf', 'none_leaf', 'kind_swap', 'dict_to_cm',
                   'tuple_nt', 'tuple_ss', 'tuple_sub',
                   'map_to_seq', 'seq_to_map')       # same arity and children, mapping kind <-> sequence kind


def near_miss(draw, desc, edits=None, allow_root=False):
    """exactly one local edit somewhere in the tree; returns (new desc, edit name or None)"""
    root, refs = _node_refs(_copy.deepcopy(desc))
    order = draw(st.permutations(list(range(len(refs)))))
    edits = list(edits) if edits is not None else draw(st.permutations(list(NEAR_MISS_EDITS)))
    for e in edits:
        for j in order:
            c, i = refs[j]
            n = c[i]
            t = n[0]
            if e == 'list_tuple' and t in ('list', 'tuple'):
                c[i] = ['tuple' if t == 'list' else 'list', n[1]]
                return root[0], e
            if e == 'arity_plus' and t in ('list', 'tuple', 'deque', 'cg', 'ci', 'cq', 'cl', 'co') and not (t == 'cl' and len(n[1]) >= 4):
                n[1].append(['i', 7])
                if t == 'deque':
                    n[3] = []
                return root[0], e
            if e == 'arity_minus' and t in ('list', 'tuple', 'cg', 'ci', 'cq', 'cl', 'co') and n[1]:
                n[1].pop(draw(st.integers(0, len(n[1]) - 1)))
                return root[0], e
            if e in ('key_rename', 'key_add', 'key_remove') and t in ('dict', 'od', 'dd', 'cm', 'cp', 'dsn'):
                items = n[2] if t == 'dd' else n[1]
                if t in ('dict', 'od', 'dd') and any(op[0] == 'auto' for op in (n[3] if t == 'dd' else n[2])):
                    continue
                fresh = 'qq' if t in ('cm', 'cp', 'dsn') else ['s', 'qq']
                if e == 'key_add':
                    items.append([fresh, ['i', 7]])
                    return root[0], e
                if items and e == 'key_remove':
                    items.pop(draw(st.integers(0, len(items) - 1)))
                    return root[0], e
                if items and e == 'key_rename':
                    items[draw(st.integers(0, len(items) - 1))][0] = fresh
                    return root[0], e
            # same arity, same children, but a tuple *subclass* (namedtuple / struct sequence / leaf subclass)
            if e == 'tuple_nt' and t == 'tuple' and len(n[1]) <= 2:
                c[i] = ['nt', ['NT0', 'NT1', 'NT2'][len(n[1])], n[1]]
                return root[0], e
            if e == 'tuple_nt' and t == 'nt':
                c[i] = ['tuple', n[2]]
                return root[0], e
            if e == 'tuple_ss' and t == 'tuple' and len(n[1]) == 2:
                c[i] = ['ss', 'terminal_size', n[1]]
                return root[0], e
            if e == 'tuple_ss' and t == 'ss':
                c[i] = ['tuple', n[2]]
                return root[0], e
            if e == 'tuple_sub' and t == 'tuple' and len(n[1]) == 2 and (j != 0 or allow_root):
                c[i] = ['sub', 'TupleSub']
                return root[0], e
            if e == 'nt_swap' and t == 'nt' and n[1] in ('NT2', 'NTSub'):
                n[1] = 'NTSub' if n[1] == 'NT2' else 'NT2'
                return root[0], e
            if e == 'meta_change' and t in ('cg', 'cn', 'dc'):
                k = 2 if t == 'cg' else 3
                n[k] = 'changed' if n[k] != 'changed' else 'changed2'
                return root[0], e
            if e == 'meta_change' and t == 'cu':
                n[2] = list(n[2]) + [9]
                return root[0], e
            if e == 'node_to_leaf' and t not in LEAF_TAGS and t != 'none' and (j != 0 or allow_root):
                c[i] = ['L', 77]
                return root[0], e
            if e == 'none_leaf' and t == 'none':
                c[i] = ['L', 78]
                return root[0], e
            if e == 'none_leaf' and t in LEAF_TAGS:
                c[i] = ['none']
                return root[0], e
            if e == 'kind_swap' and t in ('list', 'tuple') :
                c[i] = ['deque', n[1], 'none', []]
                return root[0], e
            if e == 'map_to_seq' and t in ('dict', 'od', 'dd'):
                items = n[2] if t == 'dd' else n[1]
                c[i] = [draw(st.sampled_from(['list', 'tuple'])), [v for _k, v in items]]
                return root[0], e
            if e == 'seq_to_map' and t in ('list', 'tuple'):
                c[i] = [draw(st.sampled_from(['dict', 'od'])), [[['i', k], v] for k, v in enumerate(n[1])], []]
                return root[0], e
            if e == 'dict_to_cm' and t == 'dict' and all(k[0] == 's' and k[1] in 'xyzw' for k, _ in n[1]):
                c[i] = ['cm', [[k[1], v] for k, v in n[1]]]
                return root[0], e
    return root[0], None


@st.composite
def nested_dict_descs(draw, depth=None):
    """dict skeleton: depth 2-3, 2-4 keys per dict, children of unequal sizes (reorder branch)"""
    depth = depth if depth is not None else draw(st.integers(2, 3))
    keypool = [['s', 'a'], ['s', 'b'], ['s', 'c'], ['s', 'd'], ['i', 1], ['i', 2], ['n']]

    def mk(d):
        n = draw(st.integers(2, 4))
        ks = draw(st.permutations(keypool))[:n]
        if not draw(st.integers(0, 3)):
            ks = [k for k in ks if k[0] == 's'] or [['s', 'a'], ['s', 'b']]
        items = []
        for k in ks:
            c = draw(st.integers(0, 5))
            if c == 0 and d > 1:
                v = mk(d - 1)
            elif c <= 2:
                v = ['L', draw(st.integers(0, 99))]
            elif c == 3:
                v = ['tuple', [['L', draw(st.integers(0, 99))] for _ in range(draw(st.integers(0, 3)))]]
            elif c == 4 and d > 1:
                v = mk(d - 1)
            else:
                v = ['list', [['i', 0], ['tuple', [['i', 1], ['i', 2]]]]]
            items.append([k, v])
        kind = draw(st.sampled_from(['dict', 'dict', 'od', 'dd']))
        if kind == 'dd':
            return ['dd', draw(_FACT), items, []]
        return [kind, items, []]

    return mk(depth)


def _seed_node(draw, e, leaf):
    """a small node on which the near-miss edit `e` is applicable"""
    x, y = draw(leaf), draw(leaf)
    if e in ('list_tuple', 'kind_swap', 'node_to_leaf'):
        return [draw(st.sampled_from(['list', 'tuple'])), [x, y]]
    if e in ('arity_plus', 'arity_minus'):
        k = draw(st.sampled_from(['list', 'tuple', 'cg', 'ci', 'cq', 'cl']))
        return [k, [x, y], None] if k == 'cg' else [k, [x, y]]
    if e in ('key_rename', 'key_add', 'key_remove'):
        k = draw(st.sampled_from(['dict', 'od', 'dd', 'cm', 'cp', 'dsn']))
        if k in ('cm', 'cp', 'dsn'):
            return [k, [['x', x], ['y', y]]]
        items = [[['s', 'a'], x], [['s', 'b'], y]]
        return ['dd', draw(_FACT), items, []] if k == 'dd' else [k, items, []]
    if e == 'dict_to_cm':
        return ['dict', [[['s', 'x'], x], [['s', 'y'], y]], []]
    if e == 'map_to_seq':
        k = draw(st.sampled_from(['dict', 'od', 'dd']))
        items = [[['s', 'a'], x], [['s', 'b'], y]]
        return ['dd', draw(_FACT), items, []] if k == 'dd' else [k, items, []]
    if e == 'seq_to_map':
        return [draw(st.sampled_from(['list', 'tuple'])), [x, y]]
    if e == 'nt_swap':
        return ['nt', draw(st.sampled_from(['NT2', 'NTSub'])), [x, y]]
    if e == 'meta_change':
        k = draw(st.sampled_from(['cg', 'cn', 'dc', 'cu']))
        if k == 'cg':
            return ['cg', [x, y], 'm']
        if k == 'cu':
            return ['cu', [x, y], [1]]
        return [k, x, y, 'm']
    if e == 'none_leaf':
        return draw(st.sampled_from([['none'], x]))
    if e in ('tuple_nt', 'tuple_ss', 'tuple_sub'):
        if e == 'tuple_nt' and draw(st.booleans()):
            n = draw(st.integers(0, 2))
            return ['nt', ['NT0', 'NT1', 'NT2'][n], [x, y][:n]]
        if e == 'tuple_ss' and draw(st.booleans()):
            return ['ss', 'terminal_size', [x, y]]
        return ['tuple', [x, y]]
    raise AssertionError(e)


def targeted_near_miss(draw, max_leaves=8, leaf=None):
    """(a, b, edit): a tree that is guaranteed to contain a node on which a chosen near-miss edit applies,
    and the same tree with exactly that edit (every edit kind gets its share of the budget)"""
    leaf = leaf if leaf is not None else _LEAF
    e = draw(st.sampled_from(NEAR_MISS_EDITS))
    seed = _seed_node(draw, e, leaf)
    edited, done = near_miss(draw, seed, edits=(e,), allow_root=True)
    sib = draw(tree_descs(max(2, max_leaves - 2), leaf=leaf, max_depth=3))
    w = draw(st.sampled_from(['list', 'tuple', 'dict', 'od', 'cg', 'deque']))

    def wrap(node):
        node, other = _copy.deepcopy(node), _copy.deepcopy(sib)
        if w in ('list', 'tuple'):
            return [w, [other, node]]
        if w == 'deque':
            return ['deque', [node, other], 'none', []]
        if w == 'cg':
            return ['cg', [node, other], None]
        return [w, [[['s', 'k1'], node], [['s', 'k0'], other]], []]

    return wrap(seed), wrap(edited), (e if done else None)


PAIR_MODES = ('same', 'suffix', 'suffix', 'near_miss', 'near_miss_targeted', 'near_miss_targeted', 'dict_variant',
              'dict_variant', 'nested_dict_variant', 'nested_dict_variant', 'unrelated', 'suffix_variant', 'leafless')


@st.composite
def pair_descs(draw, max_leaves=10, kinds=None, modes=PAIR_MODES, keys=None):
    """-> {'a': prefix-ish desc, 'b': full-ish desc, 'rel': how b was derived from a, 'edit': ...}"""
    mode = draw(st.sampled_from(list(modes)))
    sub = tree_descs(max(3, max_leaves // 3), kinds=kinds, keys=keys, max_depth=3, min_leaves=2)
    edit = None
    if mode == 'leafless':
        # trees without any leaf (None / empty containers only, under none_is_leaf=False) and a one-edit variant
        a = draw(tree_descs(max_leaves, kinds=kinds, keys=keys, leaf=st.just(['none'])))
        b, edit = near_miss(draw, a) if draw(st.integers(0, 3)) else (_copy.deepcopy(a), None)
        if draw(st.booleans()):
            a, b = b, a
        return {'a': a, 'b': b, 'rel': 'near_miss' if edit else 'same', 'edit': edit}
    if mode == 'near_miss_targeted':
        a, b, edit = targeted_near_miss(draw, max_leaves)
        if draw(st.booleans()):
            a, b = b, a                 # the edit in either direction
        return {'a': a, 'b': b, 'rel': 'near_miss', 'edit': edit}
    if mode.startswith('nested_dict'):
        a = draw(nested_dict_descs())
    else:
        a = draw(tree_descs(max_leaves, kinds=kinds, keys=keys))
    nt = contains_tag(a, ('none',)) and draw(st.booleans())    # None positions extended too (leaves iff none_is_leaf)
    if mode == 'same':
        b = _copy.deepcopy(a)
    elif mode == 'suffix':
        b = substitute_leaves(draw, a, sub, at_least_one=True, none_too=nt)
    elif mode == 'near_miss':
        b0 = substitute_leaves(draw, a, sub, none_too=nt) if draw(st.booleans()) else a
        b, edit = near_miss(draw, b0)
    elif mode == 'dict_variant':
        b = dict_variant(draw, a) if draw(st.integers(0, 2)) else order_variant(draw, substitute_leaves(draw, a, sub, none_too=nt))
    elif mode == 'suffix_variant':
        b = dict_variant(draw, substitute_leaves(draw, a, sub, at_least_one=True, none_too=nt))
    elif mode == 'nested_dict_variant':
        b = dict_variant(draw, substitute_leaves(draw, a, sub, none_too=nt) if draw(st.booleans()) else a)
    else:
        b = draw(tree_descs(max_leaves, kinds=kinds, keys=keys))
    return {'a': a, 'b': b, 'rel': mode, 'edit': edit}
