"""Shared driver: generation loop, failure buckets, known findings, shrinking, replay, evidence.

A property module defines a subclass of Prop with
    ID, LEVEL, RULE, ASSUMPTIONS
    strategy(self, tier)            -> Hypothesis strategy of JSON-able *cases* (dicts)    [optional]
    budget(self, tier)              -> number of generated cases (per shard)
    check_case(self, case, ctx)     -> calls ctx.fail(oracle, msg) for every violated sub-oracle,
                                       ctx.label(...) / ctx.nontrivial(bool) for the distribution
    extra(self, ctx)                -> optional deterministic part (enumerations, matrices)
    tree_keys                       -> names of case entries that are tree descriptions (for shrinking)
Exit codes: 0 held, 1 violation (VIOLATION line printed), 2 harness error.
"""
from __future__ import annotations

import argparse
import copy
import hashlib
import json
import os
import sys
import time
import traceback
from pathlib import Path

VERIF = Path(__file__).resolve().parent.parent
# VERIF_OUT redirects what a run writes (used by the sensitivity tools, which run the checks against patched
# scratch copies and must not overwrite the evidence of the real tree); unset for every registered command
_OUT = Path(os.environ['VERIF_OUT']) if os.environ.get('VERIF_OUT') else VERIF
EVIDENCE = _OUT / 'evidence'
REPLAYS = _OUT / 'replays'
KNOWN = VERIF / 'known_findings.json'


_journal_file = None


def journal(obj):
    """crash isolation: remember what is about to run (read back by the parent if the process dies)"""
    global _journal_file
    path = os.environ.get('VERIF_JOURNAL')
    if not path:
        return
    if _journal_file is None:
        _journal_file = open(path, 'w')
    _journal_file.seek(0)
    _journal_file.truncate()
    _journal_file.write(json.dumps(obj, default=repr))
    _journal_file.flush()


def jhash(obj) -> str:
    return hashlib.sha1(json.dumps(obj, sort_keys=True, default=repr).encode()).hexdigest()[:16]


_ENGINE_EXC = ('IndexError', 'RuntimeError', 'MemoryError', 'OverflowError', 'BufferError')


def _raised_by_engine_call(e) -> bool:
    """An exception with no deeper Python frame than a harness line that calls a method of an optree object (or
    an optree function) was raised by native code reached from that line.  For the exception types the engine's
    C++ produces when it goes wrong (std::out_of_range -> IndexError, std::runtime_error -> RuntimeError, ...) that
    is the code under test misbehaving on an input the harness built to be valid, not a harness error.  Ordinary
    TypeError / ValueError / AttributeError / KeyError stay harness errors (exit 2)."""
    import re
    if type(e).__name__ not in _ENGINE_EXC:
        return False
    tb = e.__traceback__
    if tb is None:
        return False
    while tb.tb_next is not None:
        tb = tb.tb_next
    frame = tb.tb_frame
    try:
        import linecache
        line = linecache.getline(frame.f_code.co_filename, tb.tb_lineno)
    except Exception:  # noqa: BLE001
        return False
    for name in set(re.findall(r'\b([A-Za-z_][A-Za-z0-9_]*)\s*\.\s*[A-Za-z_][A-Za-z0-9_]*\s*\(', line)):
        obj = frame.f_locals.get(name, frame.f_globals.get(name))
        if obj is None:
            continue
        mod = getattr(obj, '__name__', '') if isinstance(obj, type(re)) else getattr(type(obj), '__module__', '')
        if str(mod).split('.')[0] == 'optree':
            return True
    return False


class Ctx:
    def __init__(self, prop, tier, seed, shard=0, nshards=1):
        self.prop, self.tier, self.seed, self.shard, self.nshards = prop, tier, seed, shard, nshards
        self.evaluations = 0
        self.nontrivial_hashes: set[str] = set()
        self.labels: dict[str, int] = {}
        self.samples: list = []
        self.buckets: dict[str, dict] = {}      # oracle -> {case, msg, count}
        self.known_hits: dict[str, int] = {}     # finding id -> count
        self.known_example: dict[str, str] = {}
        self.notes: list[str] = []
        self.extra_cov: dict = {}
        self._fails: list[tuple[str, str]] = []
        self._nontrivial = False
        self.harness_errors: list[str] = []
        self.recording = True

    # ---- called from check_case
    def fail(self, oracle: str, msg: str = ''):
        self._fails.append((oracle, str(msg)[:600]))

    def label(self, *names):
        for n in names:
            self.labels[n] = self.labels.get(n, 0) + 1

    def nontrivial(self, flag=True):
        self._nontrivial = self._nontrivial or bool(flag)

    def note(self, s):
        if s not in self.notes:
            self.notes.append(s)

    # ---- driver side
    def run_case(self, case, record=True):
        """Run one case; returns list of (oracle, msg) that are NOT attributed to known findings."""
        self._fails = []
        self._nontrivial = False
        self.recording = record
        if os.environ.get('VERIF_JOURNAL_CASES'):
            journal({'case': case})          # crash isolation: the driver reads this if the shard dies
        try:
            self.prop.check_case(case, self)
        except BaseException as e:  # noqa: BLE001
            if isinstance(e, (KeyboardInterrupt, SystemExit)):
                raise
            tb = traceback.extract_tb(e.__traceback__)
            inner = tb[-1].filename if tb else ''
            name = type(e).__name__
            if name in ('InternalError', 'SystemError') or '/optree/' in inner or _raised_by_engine_call(e):
                self._fails.append((f'escaped:{name}', f'{name}: {e}'[:600]))
            else:
                self.harness_errors.append(''.join(traceback.format_exception(e))[-3000:])
                return []
        if record:
            self.evaluations += 1
            if self._nontrivial:
                self.nontrivial_hashes.add(jhash(case))
            if len(self.samples) < 5 and self._nontrivial and self.evaluations % 37 == 1:
                self.samples.append(case)
        fresh = []
        for oracle, msg in self._fails:
            fid = match_known(self.prop.ID, oracle, case, msg)
            if fid is not None:
                if record:
                    self.known_hits[fid] = self.known_hits.get(fid, 0) + 1
                    self.known_example.setdefault(fid, msg)
                continue
            fresh.append((oracle, msg))
            if record:
                b = self.buckets.get(oracle)
                size = len(json.dumps(case, default=repr))
                if b is None:
                    self.buckets[oracle] = {'case': case, 'msg': msg, 'count': 1, 'size': size}
                else:
                    b['count'] += 1
                    if size < b['size']:
                        b.update(case=case, msg=msg, size=size)
        return fresh


# ---------------------------------------------------------------- known findings

_known_cache = None


def load_known():
    global _known_cache
    if _known_cache is None:
        if KNOWN.exists():
            _known_cache = json.loads(KNOWN.read_text())
        else:
            _known_cache = {'findings': [], 'fixed': []}
    return _known_cache


def match_known(prop_id, oracle, case, msg):
    """A failure is attributed to a listed finding iff the property and oracle match and the named
    trigger predicate holds on the failing case."""
    from vlib import triggers
    for f in load_known().get('findings', []):
        if f['property'] != prop_id:
            continue
        if f.get('oracles') and not any(oracle == o or oracle.startswith(o) for o in f['oracles']):
            continue
        pred = getattr(triggers, f['trigger'])
        try:
            if pred(case, msg):
                return f['id']
        except Exception:  # noqa: BLE001
            continue
    return None


# ---------------------------------------------------------------- shrinking of descriptions

LEAF0 = ['i', 0]
_CHILD_LISTS = {'tuple': [1], 'list': [1], 'deque': [1], 'nt': [2], 'ss': [2], 'cg': [1], 'cu': [1],
                'ci': [1], 'co': [1], 'cq': [1], 'fn': [1], 'cl': [1], 'partial': [2]}
_ITEM_LISTS = {'dict': 1, 'od': 1, 'dd': 2, 'cm': 1, 'cp': 1, 'dsn': 1}
_SINGLE = {'cn': [1, 2], 'cs': [1, 2], 'dc': [1, 2], 'dci': [1, 2], 'ntc': [1, 2]}
_HIST = {'dict': 2, 'od': 2, 'dd': 3, 'deque': 3}
_FIXED_ARITY = {'nt', 'ss'}


def _is_tree(d):
    return isinstance(d, list) and d and isinstance(d[0], str)


def shrink_candidates(desc):
    """Yield simpler variants of a tree description (one edit each)."""
    if not _is_tree(desc):
        return
    tag = desc[0]
    if tag in ('i', 's', 'f', 'none'):
        return
    if tag == 'bad':
        return
    if tag == 'wrap':
        yield copy.deepcopy(desc[3])
        for d in (0, 1, desc[2] // 2, desc[2] - 1):
            if 0 <= d < desc[2]:
                yield ['wrap', desc[1], d, copy.deepcopy(desc[3])]
        if ',' in desc[1]:
            yield ['wrap', desc[1].split(',')[0], desc[2], copy.deepcopy(desc[3])]
        for sc in shrink_candidates(desc[3]):
            yield ['wrap', desc[1], desc[2], sc]
        return
    if tag in ('L', 'sub'):
        yield list(LEAF0)
        return
    if tag == 'arr':
        if desc[2] != [] or desc[1] != 'float32':
            yield ['arr', 'float32', [], desc[3]]
        return
    yield list(LEAF0)
    # hoist children
    kids = []
    for slot in _CHILD_LISTS.get(tag, []):
        kids += [(slot, i, c) for i, c in enumerate(desc[slot])]
    if tag in _ITEM_LISTS:
        slot = _ITEM_LISTS[tag]
        kids += [(slot, i, kc[1]) for i, kc in enumerate(desc[slot])]
    if tag == 'partial':
        kids += [(3, i, kc[1]) for i, kc in enumerate(desc[3])]
    for slot in _SINGLE.get(tag, []):
        kids.append((slot, None, desc[slot]))
    for _slot, _i, c in kids:
        yield copy.deepcopy(c)
    # drop history
    if tag in _HIST and desc[_HIST[tag]]:
        d = copy.deepcopy(desc)
        d[_HIST[tag]] = []
        yield d
        for i in range(len(desc[_HIST[tag]])):
            d = copy.deepcopy(desc)
            del d[_HIST[tag]][i]
            yield d
    # delete one child / item
    if tag not in _FIXED_ARITY:
        for slot in _CHILD_LISTS.get(tag, []):
            for i in range(len(desc[slot])):
                d = copy.deepcopy(desc)
                del d[slot][i]
                yield d
        if tag in _ITEM_LISTS:
            slot = _ITEM_LISTS[tag]
            for i in range(len(desc[slot])):
                d = copy.deepcopy(desc)
                del d[slot][i]
                yield d
        if tag == 'partial':
            for i in range(len(desc[3])):
                d = copy.deepcopy(desc)
                del d[3][i]
                yield d
    # recurse into children
    for slot, i, c in kids:
        for sc in shrink_candidates(c):
            d = copy.deepcopy(desc)
            if i is None:
                d[slot] = sc
            elif tag in _ITEM_LISTS and slot == _ITEM_LISTS[tag] or (tag == 'partial' and slot == 3):
                d[slot][i][1] = sc
            else:
                d[slot][i] = sc
            yield d


def shrink_case(ctx: Ctx, case: dict, oracle: str, max_runs=300):
    """Greedy description-level delta debugging keeping the same failing oracle."""
    prop = ctx.prop
    keys = [k for k in getattr(prop, 'tree_keys', ('t',)) if k in case]
    runs = 0

    def still(c):
        nonlocal runs
        runs += 1
        try:
            fresh = ctx.run_case(c, record=False)
        except BaseException:  # noqa: BLE001
            return False
        return any(o == oracle for o, _ in fresh)

    best = case
    improved = True
    while improved and runs < max_runs:
        improved = False
        # simplify configuration first
        cfg = best.get('cfg')
        if isinstance(cfg, dict):
            for k, v in (('pred', 'none'), ('mode', 'sorted'), ('nil', False), ('ns', '')):
                if cfg.get(k) != v and runs < max_runs:
                    c = copy.deepcopy(best)
                    c['cfg'][k] = v
                    if still(c):
                        best = c
                        improved = True
        for k in keys:
            for cand in shrink_candidates(best[k]):
                if runs >= max_runs:
                    break
                c = dict(best)
                c[k] = cand
                if len(json.dumps(c, default=repr)) >= len(json.dumps(best, default=repr)):
                    continue
                if still(c):
                    best = c
                    improved = True
                    break
        if hasattr(prop, 'shrink_extra'):
            for c in prop.shrink_extra(best):
                if runs >= max_runs:
                    break
                if still(c):
                    best = c
                    improved = True
                    break
    return best


# ---------------------------------------------------------------- the generation loop

def drive(ctx: Ctx, strategy, n: int, seed: int):
    """Generate n cases with Hypothesis (generation phase only; we shrink ourselves)."""
    import hypothesis
    from hypothesis import HealthCheck, Phase, given, settings

    @hypothesis.seed(seed)
    @settings(max_examples=n, database=None, deadline=None, derandomize=False,
              phases=[Phase.generate], report_multiple_bugs=False,
              suppress_health_check=list(HealthCheck), print_blob=False)
    @given(strategy)
    def body(case):
        ctx.run_case(case)

    body()


class Prop:
    ID = 'C00'
    LEVEL = 'exploration'
    RULE = ''
    ASSUMPTIONS: list[str] = []
    tree_keys = ('t',)
    BUILD = 'plain'
    SHARDS_THOROUGH = 16

    def budget(self, tier):
        return 1000

    def strategy(self, tier):
        return None

    def check_case(self, case, ctx):
        raise NotImplementedError

    def extra(self, ctx):
        return None


def write_evidence(prop, tier, seed, cov, violations, wall, assumptions, known_lines):
    EVIDENCE.mkdir(parents=True, exist_ok=True)
    ev = {
        'property_id': prop.ID,
        'tier': tier,
        'seed': seed,
        'level': prop.LEVEL,
        'coverage': cov,
        'assumptions': assumptions,
        'wall_s': round(wall, 2),
        'violations': violations,
        'known_findings_seen': known_lines,
    }
    (EVIDENCE / f'{prop.ID}.json').write_text(json.dumps(ev, indent=1, default=repr) + '\n')


def shard_main(prop: Prop, tier, seed, shard, nshards, out_path):
    """Run one shard; dump partial results as JSON."""
    ctx = Ctx(prop, tier, seed, shard, nshards)
    t0 = time.time()
    strat = prop.strategy(tier)
    if strat is not None:
        n = prop.budget(tier)
        if os.environ.get('VERIF_BUDGET_SCALE'):     # sensitivity tools only (first pass of a mutant sweep)
            n = max(20, int(n * float(os.environ['VERIF_BUDGET_SCALE'])))
        drive(ctx, strat, n, seed * 1000 + shard)
    prop.extra(ctx)
    # shrink fresh buckets
    viol = []
    for oracle, b in sorted(ctx.buckets.items()):
        case = b['case']
        try:
            case = shrink_case(ctx, case, oracle)
            fresh = [m for o, m in ctx.run_case(case, record=False) if o == oracle]
            msg = fresh[0] if fresh else b['msg']
        except BaseException:  # noqa: BLE001
            msg = b['msg']
        viol.append({'oracle': oracle, 'case': case, 'msg': msg, 'count': b['count']})
    part = {
        'evaluations': ctx.evaluations,
        'nontrivial': sorted(ctx.nontrivial_hashes),
        'labels': ctx.labels,
        'samples': ctx.samples[:3],
        'violations': viol,
        'known_hits': ctx.known_hits,
        'known_example': ctx.known_example,
        'harness_errors': ctx.harness_errors[:3],
        'notes': ctx.notes,
        'extra_cov': ctx.extra_cov,
        'wall': time.time() - t0,
    }
    Path(out_path).write_text(json.dumps(part, default=repr))


def merge_and_report(prop: Prop, tier, seed, parts, wall, replay_mode=False):
    evaluations = sum(p['evaluations'] for p in parts)
    nontrivial = set()
    labels: dict[str, int] = {}
    samples, viols, herr, notes = [], {}, [], []
    known_hits: dict[str, int] = {}
    known_example: dict[str, str] = {}
    extra_cov: dict = {}
    for p in parts:
        nontrivial.update(p['nontrivial'])
        for k, v in p['labels'].items():
            labels[k] = labels.get(k, 0) + v
        samples += p['samples']
        for v in p['violations']:
            cur = viols.get(v['oracle'])
            if cur is None or len(json.dumps(v['case'])) < len(json.dumps(cur['case'])):
                cnt = (cur['count'] if cur else 0) + v['count']
                viols[v['oracle']] = dict(v, count=cnt)
            else:
                cur['count'] += v['count']
        for k, v in p['known_hits'].items():
            known_hits[k] = known_hits.get(k, 0) + v
        known_example.update(p.get('known_example', {}))
        herr += p['harness_errors']
        for n in p['notes']:
            if n not in notes:
                notes.append(n)
        for k, v in p.get('extra_cov', {}).items():
            if isinstance(v, (int, float)) and not isinstance(v, bool):
                if k.endswith('_max') or k == 'states':     # per-shard maxima / distinct counts: lower bound
                    extra_cov[k] = max(extra_cov.get(k, 0), v)
                else:
                    extra_cov[k] = extra_cov.get(k, 0) + v
            elif isinstance(v, list):
                extra_cov.setdefault(k, [])
                extra_cov[k] = (extra_cov[k] + v)[:8]
            else:
                extra_cov[k] = v
    known_lines = []
    for f in load_known().get('findings', []):
        if f['property'] == prop.ID:
            hits = known_hits.get(f['id'], 0)
            line = f"KNOWN-FINDING: property={prop.ID} {f['id']}: {f['what']} (seen {hits}x this run)"
            print(line)
            known_lines.append(line)
    cov = {
        'evaluations': int(evaluations),
        'distinct_nontrivial': len(nontrivial),
        'rule': prop.RULE,
        'samples': samples[:5] if samples else [],
        'classes': dict(sorted(labels.items())),
        'shards': len(parts),
    }
    cov.update(extra_cov)
    if notes:
        cov['notes'] = notes
    if not cov['samples']:
        cov['samples'] = extra_cov.get('samples', ['(no sample recorded)'])
    rc = 0
    REPLAYS.mkdir(parents=True, exist_ok=True)
    for oracle, v in sorted(viols.items()):
        rp = REPLAYS / f"{prop.ID}-{oracle.replace('/', '_').replace(':', '_')[:60]}-{jhash(v['case'])}.json"
        rec = {'property': prop.ID, 'oracle': oracle, 'case': v['case'], 'message': v['msg'], 'count': v['count']}
        if v.get('sequence'):
            rec['sequence'] = v['sequence']      # crash confirmed only inside its generated sequence: ./check --replay re-runs the shard
        rp.write_text(json.dumps(rec, indent=1, default=repr))
        print(f'VIOLATION property={prop.ID} replay={rp}')
        print(f'  oracle={oracle} count={v["count"]} msg={v["msg"][:300]}')
        rc = 1
    write_evidence(prop, tier, seed, cov, len(viols), wall, list(prop.ASSUMPTIONS), known_lines)
    if herr and rc == 0:
        print('HARNESS-ERROR (exit 2):', file=sys.stderr)
        print(herr[0], file=sys.stderr)
        return 2
    if herr:
        # the harness also tripped over something (usually the same misbehaviour): the violations found stand
        print(f'(note: {len(herr)} harness error(s) besides the violations; first: {herr[0].strip().splitlines()[-1][:200]})', file=sys.stderr)
    print(f'{prop.ID} {tier}: evaluations={evaluations} distinct_nontrivial={len(nontrivial)} '
          f'violations={len(viols)} wall={wall:.1f}s')
    return rc


def replay(prop: Prop, path):
    data = json.loads(Path(path).read_text())
    ctx = Ctx(prop, 'quick', 0)
    fresh = ctx.run_case(data['case'], record=False)
    if ctx.harness_errors:
        print(ctx.harness_errors[0], file=sys.stderr)
        return 2
    hit = [m for o, m in fresh if o == data['oracle']] or [m for _o, m in fresh]
    if hit:
        print(f'VIOLATION property={prop.ID} replay={path}')
        print(f'  msg={hit[0][:400]}')
        return 1
    print(f'{prop.ID}: replay passes ({path})')
    return 0


def main(prop: Prop):
    """Entry for `python -m vlib.props.cXX` (invoked by ./check with PYTHONPATH set)."""
    ap = argparse.ArgumentParser()
    ap.add_argument('--tier', default=os.environ.get('VERIF_TIER', 'quick'))
    ap.add_argument('--replay')
    ap.add_argument('--shard', default='0/1')
    ap.add_argument('--out')
    a = ap.parse_args()
    import optree
    pkg = os.environ.get('VERIF_PKG')
    if pkg and not optree.__file__.startswith(pkg):
        print(f'harness error: optree imported from {optree.__file__}, expected {pkg}', file=sys.stderr)
        sys.exit(2)
    sys.setrecursionlimit(20000)
    seed = int(os.environ.get('VERIF_SEED', '1'))
    if a.replay:
        sys.exit(replay(prop, a.replay))
    i, n = map(int, a.shard.split('/'))
    if a.out:
        shard_main(prop, a.tier, seed, i, n, a.out)
        sys.exit(0)
    # single-process mode
    import tempfile
    t0 = time.time()
    with tempfile.TemporaryDirectory(dir=str(VERIF / '.build')) as td:
        out = Path(td) / 'part.json'
        shard_main(prop, a.tier, seed, 0, 1, out)
        parts = [json.loads(out.read_text())]
    sys.exit(merge_and_report(prop, a.tier, seed, parts, time.time() - t0))
