"""Named trigger predicates for known findings (known_findings.json refers to them by name).

A predicate receives the (minimal or raw) failing case and the failure message and decides
whether the failure is the *listed* finding.  They are deliberately narrow: anything else that
fails the same property is still reported as a VIOLATION.
"""
from __future__ import annotations


def _walk(desc):
    if isinstance(desc, list):
        if desc and isinstance(desc[0], str):
            yield desc
        for x in desc:
            yield from _walk(x)
    elif isinstance(desc, dict):
        for v in desc.values():
            yield from _walk(v)


def never(case, msg):
    return False


def pickle_protocol_below_2(case, msg):
    """pickle.dumps(treespec, protocol=0|1) raises TypeError('cannot pickle ...') (pybind11 pickling needs protocol >= 2)"""
    return isinstance(case, dict) and case.get('proto') in (0, 1) and 'cannot pickle' in msg and 'TypeError' in msg
