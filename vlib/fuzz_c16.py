"""Coverage-guided fuzz target for C16 (atheris / libFuzzer on the sancov build of the engine).

Bytes are decoded (FuzzedDataProvider) into a tree over the universe's node kinds, a configuration
and a short program of operations, optionally with a callback that mutates a container of the tree at
its k-th invocation.  The semantic oracle sits inside the target (round trip, traversal agreement,
counts, prefix reflexivity, pickle round trip); a crash of the process is a memory-safety finding,
an AssertionError a semantic one.  Global state is reset at the top of every iteration.
Run:  LD_PRELOAD=<libfuzzer_rt.so> python -m vlib.fuzz_c16 <corpus_dir> -runs=N -seed=S
"""
from __future__ import annotations

import pickle
import sys
from collections import OrderedDict, defaultdict, deque

import atheris

with atheris.instrument_imports(include=['optree']):
    import optree

from vlib import universe as U  # noqa: E402

NS = ['', U.NS, U.NSF, 'zz']


def build(fdp, depth, pool):
    k = fdp.ConsumeIntInRange(0, 17 if depth < 6 else 2)
    if k == 0:
        return fdp.ConsumeIntInRange(0, 5)
    if k == 1:
        return None
    if k == 2:
        return U.Leaf(fdp.ConsumeIntInRange(0, 9))
    n = fdp.ConsumeIntInRange(0, 4)
    ch = [build(fdp, depth + 1, pool) for _ in range(n)]

    def keys():
        out = []
        for i in range(len(ch)):
            t = fdp.ConsumeIntInRange(0, 5)
            out.append([i, f'k{i}', (i, 'a'), U.KO(i), U.K(i), U.FK(i)][t])
        return out

    if k == 3:
        x = ch
    elif k == 4:
        x = tuple(ch)
    elif k == 5:
        x = dict(zip(keys(), ch))
    elif k == 6:
        x = OrderedDict(zip(keys(), ch))
        if x and fdp.ConsumeBool():
            x.move_to_end(next(iter(x)))
    elif k == 7:
        x = defaultdict([None, int, list][fdp.ConsumeIntInRange(0, 2)], zip(keys(), ch))
    elif k == 8:
        x = deque(ch, maxlen=[None, len(ch), len(ch) + 1][fdp.ConsumeIntInRange(0, 2)])
    elif k == 9:
        x = U.NT2(*(ch + [0, 0])[:2])
    elif k == 10:
        x = U.CG(*ch, tag=fdp.ConsumeIntInRange(0, 2))
    elif k == 11:
        x = U.CN(*(ch + [0, 0])[:2], meta=None)
    elif k == 12:
        x = U.FN(ch, U.FM(1) if fdp.ConsumeBool() else None)
    elif k == 13:
        x = U.CM([(f'x{i}', c) for i, c in enumerate(ch)])
    elif k == 14:
        x = U.CS(*(ch + [0, 0])[:2])
    elif k == 15:
        x = U.CI(*ch)
    elif k == 16:
        import os
        x = os.terminal_size((ch + [0, 0])[:2])
    else:
        x = U.DC(*(ch + [0, 0])[:2])
    if isinstance(x, (list, dict, deque)):
        pool.append(x)
    return x


def mutate(c, how):
    try:
        if isinstance(c, list):
            [c.clear, lambda: c.append(0), lambda: c and c.pop(), lambda: c.extend([0] * 50)][how % 4]()
        elif isinstance(c, dict):
            [c.clear, lambda: c.__setitem__('new', 0), lambda: c and dict.pop(c, next(iter(dict.keys(c)))),
             lambda: [c.__setitem__(('g', i), i) for i in range(50)]][how % 4]()
        else:
            [c.clear, lambda: c.append(0), lambda: c and c.pop(), lambda: c.rotate(1)][how % 4]()
    except Exception:  # noqa: BLE001
        pass


def TestOneInput(data):
    fdp = atheris.FuzzedDataProvider(data)
    U.TICK.reset()
    pool = []
    tree = build(fdp, 0, pool)
    nil = fdp.ConsumeBool()
    ns = NS[fdp.ConsumeIntInRange(0, 3)]
    kw = {'none_is_leaf': nil, 'namespace': ns}
    mut_at = fdp.ConsumeIntInRange(0, 12)
    mut_how = fdp.ConsumeIntInRange(0, 3)
    mut_idx = fdp.ConsumeIntInRange(0, 7)
    hostile = bool(pool) and mut_at > 0 and fdp.ConsumeBool()
    if hostile:
        target = pool[mut_idx % len(pool)]

        def hook(count, kind):
            if count == mut_at:
                mutate(target, mut_how)
        U.TICK.arm(None, hook=hook)

        def pred(x):
            U.TICK.tick('pred')
            return False
        # hostile run: anything but a crash is fine
        for fn in (lambda: optree.tree_flatten(tree, is_leaf=pred, **kw),
                   lambda: optree.tree_flatten_with_path(tree, is_leaf=pred, **kw),
                   lambda: list(optree.tree_iter(tree, is_leaf=pred, **kw)),
                   lambda: optree.tree_map(lambda x, y: x, tree, tree, is_leaf=pred, **kw),
                   lambda: optree.tree_broadcast_common(tree, tree, is_leaf=pred, **kw)):
            U.TICK.count = 0
            try:
                r = fn()
                repr(r)
            except RecursionError:
                pass
            except Exception:  # noqa: BLE001
                pass
        U.TICK.reset()
        return
    # benign run: semantic oracle
    try:
        leaves, spec = optree.tree_flatten(tree, **kw)
    except TypeError:
        return      # e.g. unhashable / incomparable user keys raising in user code
    paths, leaves2, spec2 = optree.tree_flatten_with_path(tree, **kw)
    leaves3 = list(optree.tree_iter(tree, **kw))
    assert len(leaves) == len(leaves2) == len(leaves3) == spec.num_leaves == len(paths)
    assert all(a is b and b is c for a, b, c in zip(leaves, leaves2, leaves3)), 'leaf order differs between traversals'
    assert spec == spec2 and hash(spec) == hash(spec2) and repr(spec) == repr(spec2)
    assert [tuple(p) for p in spec.paths()] == [tuple(p) for p in paths] or any(isinstance(k, U.K) for p in paths for k in p)
    rebuilt = optree.tree_unflatten(spec, leaves)
    l4, s4 = optree.tree_flatten(rebuilt, **kw)
    assert s4 == spec and all(a is b for a, b in zip(l4, leaves)) and len(l4) == len(leaves), 'round trip'
    assert spec.is_prefix(spec) and spec <= spec and not spec < spec
    accs = spec.accessors()
    assert len(accs) == len(leaves)
    op = fdp.ConsumeIntInRange(0, 6)
    if op == 0:
        s5 = pickle.loads(pickle.dumps(spec))
        assert s5 == spec and repr(s5) == repr(spec) and hash(s5) == hash(spec)
    elif op == 1:
        kids = spec.children()
        assert sum(k.num_leaves for k in kids) == (spec.num_leaves if spec.num_nodes > 1 else 0) or spec.num_nodes == 1
        ol = spec.one_level()
        if ol is not None:
            it = iter(kids)
            assert ol.transform(None, lambda s: next(it)) == spec
    elif op == 2:
        c = spec.compose(spec)
        assert c.num_leaves == spec.num_leaves ** 2
    elif op == 3:
        b = spec.broadcast_to_common_suffix(spec)
        assert b == spec and [tuple(p) for p in b.paths()] == [tuple(p) for p in spec.paths()] or any(isinstance(k, U.K) for p in paths for k in p)
    elif op == 4:
        up = spec.flatten_up_to(tree)
        assert all(a is b for a, b in zip(up, leaves))
        assert optree.prefix_errors(tree, tree, **kw) == []
    elif op == 5:
        mapped = optree.tree_map(lambda x: x, tree, **kw)
        assert optree.tree_structure(mapped, **kw) == spec
    else:
        a, b = optree.tree_broadcast_common(tree, tree, **kw)
        assert optree.tree_structure(a, **kw) == spec


def main():
    atheris.Setup(sys.argv, TestOneInput)
    atheris.Fuzz()


if __name__ == '__main__':
    main()
