"""C19  optree dataclasses and optree partial are faithful pytree nodes
(reference = dataclasses.dataclass + the stated field->children/metadata mapping; recorder for partial)."""
from __future__ import annotations

import dataclasses
import functools
import inspect
import itertools

import optree
import optree.dataclasses as odc
import optree.functools as oft
from hypothesis import strategies as st

from vlib import compare, gen, model, runner
from vlib import universe as U

GLOBAL = U.GLOBAL
_counter = itertools.count()
LEAF = st.one_of(st.integers(0, 99).map(lambda n: ['L', n]), st.integers(0, 5).map(lambda n: ['i', n]))
VALUE_KINDS = ('tuple', 'list', 'dict', 'od', 'deque', 'nt', 'cg')


def factory_list():
    return [1, 2]


@st.composite
def layouts(draw):
    n = draw(st.integers(1, 6))
    kw_only_cls = draw(st.sampled_from([False, False, True]))
    fields = []
    seen_default = False
    for i in range(n):
        init = draw(st.sampled_from([True, True, True, False]))
        default = draw(st.sampled_from(['none', 'none', 'default', 'factory']))
        kw_only = draw(st.sampled_from([None, None, True, False]))
        pn = draw(st.sampled_from([None, None, True, False]))
        if not init:
            pn = False                      # (pytree_node=True with init=False is the rejection case, tested apart)
            if default == 'none':
                default = 'default'         # a non-init field needs a value from somewhere
        eff_kw = kw_only if kw_only is not None else kw_only_cls
        if init and not eff_kw:
            if default == 'none' and seen_default:
                default = 'default'         # positional non-default after default is illegal for dataclasses itself
            if default != 'none':
                seen_default = True
        fields.append({'name': f'f{i}', 'init': init, 'default': default, 'kw_only': kw_only, 'pn': pn})
    nbase = draw(st.integers(0, max(0, n - 1))) if draw(st.booleans()) else 0
    flags = {'frozen': draw(st.booleans()), 'slots': draw(st.booleans()), 'kw_only': kw_only_cls,
             'eq': draw(st.sampled_from([True, True, False]))}
    flags['order'] = flags['eq'] and draw(st.booleans())
    return {'fields': fields, 'nbase': nbase, 'flags': flags, 'plain_base': draw(st.sampled_from([False, False, True])), 'shared_md': draw(st.sampled_from([False, False, True])),
            'route': draw(st.sampled_from(['decorator', 'decorator_call', 'make_dataclass'])),
            'ns': draw(st.sampled_from(['dcns', 'dcns', 'G'])),
            'values': [draw(gen.tree_descs(4, kinds=VALUE_KINDS, leaf=LEAF, max_depth=2)) for _ in range(n)]}


def mk_field(mod, f, shared=None):
    """field spec through optree.dataclasses.field (mod=odc) or the reference dataclasses.field;
    shared: one metadata dict object passed to *every* field() call of the class (user-level reuse)"""
    kw = {'init': f['init']}
    if f['default'] == 'default':
        kw['default'] = 7
    elif f['default'] == 'factory':
        kw['default_factory'] = factory_list
    if f['kw_only'] is not None:
        kw['kw_only'] = f['kw_only']
    if mod is odc:
        if f['pn'] is not None:
            kw['pytree_node'] = f['pn']
        if shared is not None:
            kw['metadata'] = shared
        return odc.field(**kw)
    kw['metadata'] = dict(shared or {}, pytree_node=True if f['pn'] is None else f['pn'])
    return dataclasses.field(**kw)


def build_class(mod, lay, ns_arg):
    """-> class built through `mod` (odc with registration, or plain dataclasses as the reference)"""
    uid = next(_counter)
    flags = dict(lay['flags'])
    fs = lay['fields']
    nb = lay['nbase']
    shared = {'unit': 'm'} if lay.get('shared_md') else None

    def post_init(self):
        type(self).POST[0] += 1

    def deco(cls, **kw):
        if mod is odc:
            return odc.dataclass(cls, namespace=ns_arg, **kw)
        return dataclasses.dataclass(cls, **kw)

    bases = ()
    if nb:
        bns = {'__annotations__': {f['name']: object for f in fs[:nb]}}
        bns.update({f['name']: mk_field(mod, f, shared) for f in fs[:nb]})
        # the base is a dataclass of the same family, without slots (keeps the layout legal)
        # (optionally the base is a *plain* dataclasses.dataclass that is not registered itself: its fields
        #  are inherited; fields made by dataclasses.field carry no pytree_node flag => children by default)
        base_deco = (lambda c, **kw: dataclasses.dataclass(c, **kw)) if lay.get('plain_base') else deco
        base = base_deco(type(f'B{uid}', (), bns), kw_only=flags['kw_only'], eq=flags['eq'], frozen=flags['frozen'])
        bases = (base,)
    own = fs[nb:]
    if lay['route'] == 'make_dataclass':
        spec = [(f['name'], object, mk_field(mod, f, shared)) for f in own]
        extra = {'__post_init__': post_init, 'POST': [0]}
        if mod is odc:
            cls = odc.make_dataclass(f'G{uid}', spec, bases=bases, ns=extra, namespace=ns_arg, **flags)
        else:
            cls = dataclasses.make_dataclass(f'G{uid}', spec, bases=bases, namespace=extra, **flags)
    else:
        cns = {'__annotations__': {f['name']: object for f in own}, '__post_init__': post_init, 'POST': [0]}
        cns.update({f['name']: mk_field(mod, f, shared) for f in own})
        raw = type(f'G{uid}', bases, cns)
        if lay['route'] == 'decorator_call' and mod is odc:
            cls = odc.dataclass(namespace=ns_arg, **flags)(raw)
        else:
            cls = deco(raw, **flags)
    if shared is not None and shared != {'unit': 'm'}:
        raise AssertionError(f'field() modified the metadata dict passed by the caller: {shared}')
    return cls, bases


def field_summary(cls):
    out = []
    for f in dataclasses.fields(cls):
        out.append((f.name, f.init, f.repr, f.compare, f.kw_only,
                    'MISSING' if f.default is dataclasses.MISSING else f.default,
                    'MISSING' if f.default_factory is dataclasses.MISSING else f.default_factory.__name__,
                    bool(f.metadata.get('pytree_node', True))))
    return out


class Recorder:
    def __init__(self):
        self.calls = []

    def __call__(self, *a, **k):
        self.calls.append((a, k))
        return ('rec', a, tuple(sorted(k.items(), key=lambda kv: kv[0])))


class C19(runner.Prop):
    ID = 'C19'
    LEVEL = 'exploration'
    RULE = ('generated field layouts (1-6 fields: default / default_factory / none, init, pytree_node, kw_only; ordering constraints '
            'respected by construction) x decorator flags (frozen, slots, kw_only, eq, order) x optional base class x route '
            '(decorator, decorator factory, make_dataclass) x namespace, field values are generated pytrees; and generated '
            'partials over partials with positional / keyword pytrees; non-trivial = layout with >=1 metadata (non-child) field '
            'and >=1 child field, or a nested partial; distinct = sha1(case)')
    ASSUMPTIONS = [
        'reference class = the same layout through dataclasses.dataclass / dataclasses.make_dataclass with metadata {"pytree_node": flag}',
        'non-init fields always get a default (otherwise neither implementation can build an instance)',
        'classes are unregistered again at the end of each case',
    ]
    tree_keys = ()

    def budget(self, tier):
        return 300 if tier == 'quick' else 4000

    def strategy(self, tier):
        part = st.fixed_dictionaries({
            'kind': st.just('partial'),
            'args': st.lists(gen.tree_descs(4, kinds=VALUE_KINDS, leaf=LEAF, max_depth=2), max_size=3),
            'kwargs': st.lists(st.tuples(st.sampled_from(['k', 'a', 'z']), gen.tree_descs(3, kinds=VALUE_KINDS, leaf=LEAF, max_depth=2)).map(list),
                               max_size=2, unique_by=lambda kc: kc[0]),
            'inner_args': st.lists(gen.tree_descs(3, kinds=VALUE_KINDS, leaf=LEAF, max_depth=2), max_size=2),
            # keywords bound by the inner partial and passed at call time, from the same small key set (overlaps:
            # later bindings win, exactly as for nested functools.partial)
            'inner_kwargs': st.lists(st.tuples(st.sampled_from(['k', 'a', 'z']), gen.tree_descs(2, kinds=VALUE_KINDS, leaf=LEAF, max_depth=2)).map(list),
                                     max_size=2, unique_by=lambda kc: kc[0]),
            'call_keys': st.lists(st.sampled_from(['k', 'a', 'z']), max_size=2, unique=True),
            'nested': st.sampled_from([0, 1, 1, 2]),
            'ns': st.sampled_from(['', U.NS, U.NS_UNKNOWN]), 'nil': st.booleans()})
        lay = layouts().map(lambda l: dict(l, kind='dataclass'))
        rej = st.fixed_dictionaries({'kind': st.just('reject'), 'which': st.sampled_from(
            ['noninit_node_field', 'noninit_node_plain_field', 'twice', 'empty_ns', 'nonclass', 'bad_ns_type'])})
        return st.one_of(lay, lay, part, rej)

    def check_case(self, case, ctx):
        if case['kind'] == 'dataclass':
            self.check_dataclass(case, ctx)
        elif case['kind'] == 'partial':
            self.check_partial(case, ctx)
        else:
            self.check_reject(case, ctx)

    # ------------------------------------------------------------------
    def check_dataclass(self, lay, ctx):
        ns_arg = GLOBAL if lay['ns'] == 'G' else lay['ns']
        ns_flat = '' if lay['ns'] == 'G' else lay['ns']
        registered = []
        try:
            try:
                ref, _ = build_class(dataclasses, lay, None)
            except Exception as e:  # noqa: BLE001
                ctx.label('layout_rejected_by_reference')    # generator produced an illegal layout: nothing to compare
                ctx.note(f'reference rejected: {type(e).__name__}: {str(e)[:80]}')
                return
            try:
                cls, bases = build_class(odc, lay, ns_arg)
            except Exception as e:  # noqa: BLE001
                ctx.fail(f'build/{lay["route"]}_raises', f'{type(e).__name__}: {e}')
                return
            registered = [cls, *bases]
            fs = lay['fields']
            child_names = [f['name'] for f in fs if (f['pn'] if f['pn'] is not None else True)]
            meta_names = [f['name'] for f in fs if not (f['pn'] if f['pn'] is not None else True) and f['init']]
            ctx.nontrivial(bool(child_names) and bool(meta_names))
            ctx.label(f'route:{lay["route"]}', 'inherits' if lay['nbase'] else 'flat')
            # the class is otherwise the one dataclasses.dataclass would produce
            a, b = field_summary(cls), field_summary(ref)
            if a != b:
                ctx.fail(f'class/fields/{lay["route"]}', f'optree {a} reference {b}')
                return
            sa, sb = str(inspect.signature(cls.__init__)), str(inspect.signature(ref.__init__))
            if sa != sb:
                ctx.fail(f'class/init_signature/{lay["route"]}', f'{sa} vs {sb}')
            for flag in ('frozen', 'eq', 'order'):
                if getattr(cls.__dataclass_params__, flag) != getattr(ref.__dataclass_params__, flag):
                    ctx.fail('class/params', flag)
            if ('__slots__' in cls.__dict__) != ('__slots__' in ref.__dict__):
                ctx.fail('class/slots', '')
            # instance
            values = {f['name']: gen.build(v) for f, v in zip(fs, lay['values']) if f['init']}
            try:
                inst = cls(**values)
            except Exception as e:  # noqa: BLE001
                ctx.fail('instance/raises', f'{type(e).__name__}: {e}')
                return
            post0 = cls.POST[0]
            kw = {'namespace': ns_flat}
            spec = optree.tree_structure(inst, **kw)
            if spec.kind != optree.PyTreeKind.CUSTOM or spec.type is not cls:
                ctx.fail('flatten/not_a_node_in_its_namespace', f'{spec}')
                return
            want_children = [getattr(inst, n) for n in child_names]
            got_children = spec.one_level().flatten_up_to(inst)
            if not compare.same_leaves(got_children, want_children):
                ctx.fail('flatten/children', f'{got_children!r} expected fields {child_names}')
            if list(spec.entries()) != child_names:
                ctx.fail('flatten/entries', f'{spec.entries()} expected {child_names}')
            leaves = optree.tree_leaves(inst, **kw)
            want_leaves = []
            for c in want_children:
                want_leaves += optree.tree_leaves(c, **kw)
            if not compare.same_leaves(leaves, want_leaves):
                ctx.fail('flatten/leaves', f'{leaves!r} vs {want_leaves!r}')
            md = spec.one_level().walk(got_children, lambda t, d, c: ('ND', d))
            md = md[1] if isinstance(md, tuple) and md and md[0] == 'ND' else None
            want_md = tuple((n, getattr(inst, n)) for n in meta_names)
            try:
                md_names = [k for k, _v in md]
            except Exception:  # noqa: BLE001
                md_names = None
            if md_names != meta_names or any(v is not w for (_k, v), (_n, w) in zip(md, want_md)):
                ctx.fail('flatten/metadata', f'{md!r} expected {want_md!r}')
            # only in its namespace
            for other in ('', 'some-other-ns'):
                if other != ns_flat and ns_flat != '':
                    if not optree.tree_is_leaf(inst, namespace=other):
                        ctx.fail('namespace/leaks', f'node in namespace {other!r} (registered in {ns_flat!r})')
            # accessors address the children by field name
            accs, ls, _ = optree.tree_flatten_with_accessor(inst, **kw)
            for acc, leaf in zip(accs, ls):
                if acc(inst) is not leaf:
                    ctx.fail('accessor/access', f'{acc!r}')
                    break
                if type(acc[0]) is not optree.DataclassEntry or acc[0].entry not in child_names or acc[0].name != acc[0].entry:
                    ctx.fail('accessor/entry', f'{acc[0]!r}')
                    break
                if not acc.codify('x').startswith(f'x.{acc[0].entry}'):
                    ctx.fail('accessor/codify', acc.codify('x'))
                    break
            # unflatten reconstructs an equal instance, __post_init__ re-run exactly once
            rebuilt = optree.tree_unflatten(spec, leaves)
            if type(rebuilt) is not cls:
                ctx.fail('unflatten/type', f'{type(rebuilt)}')
            else:
                if cls.POST[0] != post0 + 1:
                    ctx.fail('unflatten/post_init_runs', f'{cls.POST[0] - post0} runs')
                for f in fs:
                    x, y = getattr(inst, f['name']), getattr(rebuilt, f['name'])
                    d = model.same_tree(x, y) if f['init'] else (None if x == y else 'non-init field differs')
                    if d:
                        ctx.fail('unflatten/field', f'{f["name"]}: {d}')
                        break
                if lay['flags']['eq'] and not any(gen.contains_tag(v, ('cg',)) for v in lay['values']) and not (rebuilt == inst):
                    ctx.fail('unflatten/eq', f'{rebuilt!r} != {inst!r}')
            mapped = optree.tree_map(lambda x: x, inst, **kw)
            if type(mapped) is not cls or mapped is inst:
                ctx.fail('map/identity_copy', f'{mapped!r}')
            # Python twin view
            one = optree.tree_flatten_one_level(inst, **kw)
            if list(one.entries) != child_names or not compare.same_leaves(one.children, want_children):
                ctx.fail('one_level/children_entries', f'{one.entries} {one.children!r}')
            # decorating again is rejected
            try:
                odc.dataclass(cls, namespace=ns_arg)
                ctx.fail('reject/twice_accepted', '')
            except TypeError:
                pass
            except Exception as e:  # noqa: BLE001
                ctx.fail('reject/twice_wrong_exception', f'{type(e).__name__}: {e}')
        finally:
            for c in registered:
                try:
                    optree.unregister_pytree_node(c, namespace=ns_arg)
                except Exception:  # noqa: BLE001
                    pass

    # ------------------------------------------------------------------
    def check_reject(self, case, ctx):
        w = case['which']
        ctx.nontrivial(True)
        ctx.label('reject:' + w)
        cls = None
        try:
            if w == 'noninit_node_field':
                try:
                    odc.field(init=False, pytree_node=True)
                    ctx.fail('reject/noninit_node_field_accepted', '')
                except TypeError:
                    pass
                try:
                    odc.field(init=False)       # pytree_node defaults to True
                    ctx.fail('reject/noninit_default_node_field_accepted', '')
                except TypeError:
                    pass
            elif w == 'noninit_node_plain_field':
                raw = type('R', (), {'__annotations__': {'x': int, 'y': int}, 'y': dataclasses.field(init=False, default=1)})
                try:
                    cls = odc.dataclass(raw, namespace='dcns')
                    ctx.fail('reject/noninit_node_plain_field_accepted', '')
                except TypeError:
                    pass
                if optree.register_pytree_node.get(raw, namespace='dcns') is not None:
                    ctx.fail('reject/rejected_class_left_registered', '')
            elif w == 'twice':
                cls = odc.dataclass(type('R', (), {'__annotations__': {'x': int}}), namespace='dcns')
                for deco in (lambda c: odc.dataclass(c, namespace='dcns'), lambda c: odc.dataclass(namespace='other')(c)):
                    try:
                        deco(cls)
                        ctx.fail('reject/twice_accepted', '')
                    except TypeError:
                        pass
            elif w == 'empty_ns':
                for fn in (lambda: odc.dataclass(type('R', (), {'__annotations__': {'x': int}}), namespace=''),
                           lambda: odc.make_dataclass('R', [('x', int)], namespace='')):
                    try:
                        fn()
                        ctx.fail('reject/empty_namespace_accepted', '')
                    except ValueError:
                        pass
            elif w == 'nonclass':
                try:
                    odc.dataclass(5, namespace='dcns')
                    ctx.fail('reject/nonclass_accepted', '')
                except TypeError:
                    pass
            elif w == 'bad_ns_type':
                try:
                    odc.dataclass(type('R', (), {'__annotations__': {'x': int}}), namespace=3)
                    ctx.fail('reject/bad_namespace_type_accepted', '')
                except TypeError:
                    pass
        except Exception as e:  # noqa: BLE001
            ctx.fail(f'reject/{w}_wrong_exception', f'{type(e).__name__}: {e}')
        finally:
            if cls is not None:
                try:
                    optree.unregister_pytree_node(cls, namespace='dcns')
                except Exception:  # noqa: BLE001
                    pass

    # ------------------------------------------------------------------
    def check_partial(self, case, ctx):
        rec = Recorder()
        args = [gen.build(a) for a in case['args']]
        kwargs = {k: gen.build(v) for k, v in case['kwargs']}
        inner_args = [gen.build(a) for a in case['inner_args']]
        nested = case['nested']
        ctx.nontrivial(nested > 0)
        ctx.label(f'nested={nested}')
        inner_kwargs = {k: gen.build(v) for k, v in case.get('inner_kwargs', [])} if nested else {}
        call_kwargs = {k: ('call', k) for k in case.get('call_keys', [])}
        func = rec
        if nested >= 1:
            func = functools.partial(rec, *inner_args, **inner_kwargs) if nested == 1 else oft.partial(rec, *inner_args, **inner_kwargs)
        if set(inner_kwargs) & set(kwargs) or set(call_kwargs) & (set(kwargs) | set(inner_kwargs)):
            ctx.label('partial:overlapping_keywords')
        p = oft.partial(func, *args, **kwargs)
        kw = {'namespace': case['ns'], 'none_is_leaf': case['nil']}
        # never merged with a nested partial
        if tuple(p.args) != tuple(args) or dict(p.keywords) != kwargs:
            ctx.fail('partial/merged_with_nested', f'args {p.args!r} keywords {p.keywords!r}')
        # flattens in every namespace to (args, keywords), callable as metadata
        spec = optree.tree_structure(p, **kw)
        if spec.kind != optree.PyTreeKind.CUSTOM or spec.type is not oft.partial:
            ctx.fail('partial/not_a_node', f'{spec}')
            return
        if list(spec.entries()) != ['args', 'keywords']:
            ctx.fail('partial/entries', f'{spec.entries()}')
        # flattening the same partial again gives an equal treespec with an equal hash (the wrapped callable - a
        # shim around a nested partial - compares by the callable it wraps), a different callable an unequal one
        again = optree.tree_structure(p, **kw)
        if not (again == spec) or (again != spec) or hash(again) != hash(spec):
            ctx.fail('partial/spec_eq_same_partial', f'{spec} vs {again}')
        other_func = functools.partial(rec, *inner_args, **inner_kwargs) if nested else Recorder()
        other = optree.tree_structure(oft.partial(other_func, *args, **kwargs), **kw)
        if other == spec:
            ctx.fail('partial/spec_eq_other_callable', f'{spec} vs {other}')
        leaves = optree.tree_leaves(p, **kw)
        want = optree.tree_leaves((tuple(args), kwargs), **kw)
        if not compare.same_leaves(leaves, want):
            ctx.fail('partial/leaves', f'{leaves!r} vs {want!r}')
        want_spec = optree.tree_structure((tuple(args), kwargs), **kw)
        kids = spec.children()
        if len(kids) != 2 or not (optree.treespec_tuple(kids, none_is_leaf=case['nil']) == want_spec):
            ctx.fail('partial/structure', f'{spec} vs {want_spec}')
        md = spec.one_level().walk([0, 0], lambda t, d, c: ('ND', d))
        md = md[1] if isinstance(md, tuple) and md[0] == 'ND' else None
        if nested == 0 and md is not rec:
            ctx.fail('partial/metadata', f'{md!r}')
        if md is None or not callable(md):
            ctx.fail('partial/metadata_not_callable', f'{md!r}')
        # after tree_map the rebuilt partial calls the same function with the mapped arguments
        g = lambda x: ('mapped', x)  # noqa: E731
        q = optree.tree_map(g, p, **kw)
        if type(q) is not oft.partial:
            ctx.fail('partial/map_type', f'{type(q)}')
            return
        del rec.calls[:]
        out_p = p(1, extra=2, **call_kwargs)
        out_q = q(1, extra=2, **call_kwargs)
        margs = optree.tree_map(g, tuple(args), **kw)
        mkwargs = optree.tree_map(g, kwargs, **kw)
        if len(rec.calls) != 2:
            ctx.fail('partial/call_count', f'{len(rec.calls)}')
            return
        (a1, k1), (a2, k2) = rec.calls
        want1 = (*inner_args, *args, 1) if nested else (*args, 1)
        want2 = (*inner_args, *margs, 1) if nested else (*margs, 1)
        # keyword precedence of nested functools.partial: inner bindings < outer bindings < call-time keywords
        wk1 = {**inner_kwargs, **kwargs, 'extra': 2, **call_kwargs}
        wk2 = {**inner_kwargs, **mkwargs, 'extra': 2, **call_kwargs}

        def kw_diff(want, got, leaf_eq=None):
            if set(want) != set(got):
                return f'keyword names {sorted(got)} vs {sorted(want)}'
            for k_ in want:
                d_ = model.same_tree(want[k_], got[k_], leaf_eq=leaf_eq)
                if d_:
                    return f'keyword {k_}: {d_}'
            return None
        d = model.same_tree(tuple(want1), tuple(a1)) or kw_diff(wk1, dict(k1))
        if d:
            ctx.fail('partial/original_call', f'{d}: {a1!r} {k1!r}')
        d = model.same_tree(tuple(want2), tuple(a2), leaf_eq=lambda x, y: x == y) or kw_diff(wk2, dict(k2), leaf_eq=lambda x, y: x == y)
        if d:
            ctx.fail('partial/mapped_call', f'{d}: {a2!r} {k2!r}')
        # round trip
        r = optree.tree_unflatten(spec, leaves)
        if type(r) is not oft.partial or model.same_tree(tuple(args), tuple(r.args)) or model.same_tree(kwargs, dict(r.keywords)):
            ctx.fail('partial/round_trip', f'{r!r}')


PROP = C19()
if __name__ == '__main__':
    runner.main(PROP)
