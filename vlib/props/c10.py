"""C10  transposition swaps outer and inner structure without losing or moving values
(index law against the model + involution; map-then-transpose law)."""
from __future__ import annotations

import optree
from hypothesis import strategies as st

from vlib import compare, gen, model, runner
from vlib import universe as U

LEAF = st.integers(0, 9).map(lambda n: ['L', n])
LBL = lambda x, y: type(x) is type(y) and getattr(x, 'n', x) == getattr(y, 'n', y)  # noqa: E731


@st.composite
def cases(draw, ml):
    o = draw(gen.tree_descs(ml, leaf=LEAF))
    i = draw(gen.tree_descs(max(3, ml // 2), leaf=LEAF, max_depth=3))
    if draw(st.integers(0, 4)) == 0:
        # stratum: the inner structure is a plain tuple of arity 1-2 (its varied shape is a same-arity namedtuple)
        i = ['tuple', [draw(gen.tree_descs(2, leaf=LEAF, max_depth=2)) for _ in range(draw(st.integers(1, 2)))]]
    force_ns = None
    if draw(st.integers(0, 5)) == 0:
        # stratum: only the *inner* structure holds a node registered in the namespace (the outer tree is made of
        # built-in containers, so its treespec records no namespace): every internal flatten needs the caller's
        o = draw(gen.tree_descs(ml, leaf=LEAF, kinds=('tuple', 'list', 'dict', 'od', 'dd', 'deque', 'nt')))
        i = [draw(st.sampled_from(['cn', 'dc'])), draw(gen.tree_descs(2, leaf=LEAF, max_depth=2)), draw(LEAF), 'm']
        force_ns = U.NS
    nrest = draw(st.sampled_from([0, 0, 1, 2]))
    rests = []
    sub = gen.tree_descs(3, max_depth=2, min_leaves=2)
    for _ in range(nrest):
        rests.append(gen.substitute_leaves(draw, o, sub, none_too=draw(st.booleans())) if draw(st.booleans()) else o)
    cfg = draw(gen.configs(predicates=['none', 'never', 'marker3', 'marker3']))
    if force_ns is not None:
        cfg = dict(cfg, ns=force_ns)
    return {'o': o, 'i': i, 'rests': rests, 'cfg': cfg,
            'nones': draw(st.booleans()),
            'vary': draw(st.sampled_from([None, None, None, 'second', 'last'])),
            'given_inner': draw(st.booleans()),
            'fault': draw(st.sampled_from([None, None, None, 'nil', 'ns', 'count']))}


class C10(runner.Prop):
    ID = 'C10'
    LEVEL = 'exploration'
    RULE = ('generated (outer, inner) trees, the composed tree with every leaf labelled (i, j), 0-2 rests, functions returning a '
            'fixed or (deliberately) varying inner shape, injected mismatches (none_is_leaf, namespace, leaf count), degenerate '
            'leafless structures; non-trivial = m >= 2 and n >= 2; distinct = sha1(case)')
    ASSUMPTIONS = [
        'expected result is built by the model: rebuild(inner, [rebuild(outer, column_j)])',
        'predicates none/never and marker3 (leaf labels are 3-tuples only the predicate keeps whole: every internal flatten must receive it); '
        'with none_is_leaf=True a third of the labels are None',
    ]
    tree_keys = ('o', 'i')

    def budget(self, tier):
        return 500 if tier == 'quick' else 6000

    def strategy(self, tier):
        return cases(8 if tier == 'quick' else 12)

    def check_case(self, case, ctx):
        cfg = gen.sound_cfg({'cfg': case['cfg'], 'o': case['o'], 'i': case['i']})
        kw = gen.kw(cfg)
        m = model.Model.from_cfg(cfg)
        o = gen.build(case['o'])
        i_ = gen.build(case['i'])
        with gen.ModeCtx(cfg):
            mso, msi = m.structure(o), m.structure(i_)
            M, N = mso.num_leaves(), msi.num_leaves()
            O = optree.tree_structure(o, **kw)
            I = optree.tree_structure(i_, **kw)
            ctx.nontrivial(M >= 2 and N >= 2)
            ctx.label(f'm={min(M, 3)}', f'n={min(N, 3)}')
            mk = self.leaf_maker(case, cfg)
            lab = [[mk(a, b) for b in range(N)] for a in range(M)]
            comp = model.rebuild(mso, iter([model.rebuild(msi, iter(row)) for row in lab]))
            tkw = {'is_leaf': kw['is_leaf']} if 'is_leaf' in kw else {}
            if cfg['pred'] == 'marker3':
                ctx.label('marker_leaves')
            if I.namespace and not O.namespace:
                ctx.label('namespace_only_in_inner')
            if M == 0 or N == 0:
                ctx.label('degenerate_leafless')
                try:
                    optree.tree_transpose(O, I, comp, **tkw)
                    ctx.fail('transpose/empty_accepted', f'O={O} I={I}')
                except ValueError:
                    pass
                except Exception as e:  # noqa: BLE001
                    ctx.fail('transpose/empty_wrong_exception', f'{type(e).__name__}: {e}')
                if N == 0 and M > 0:
                    # an explicitly given inner structure without leaves is an empty structure too: it must be refused,
                    # not silently replaced by the structure of the first result
                    for fname, fn in (('tree_transpose_map', optree.tree_transpose_map),
                                      ('tree_transpose_map_with_path', optree.tree_transpose_map_with_path),
                                      ('tree_transpose_map_with_accessor', optree.tree_transpose_map_with_accessor)):
                        try:
                            fn(lambda *a: (U.Leaf(1), U.Leaf(2)), o, inner_treespec=I, **kw)
                            ctx.fail(f'{fname}/empty_given_inner_accepted', f'I={I}')
                        except ValueError:
                            pass
                        except Exception as e:  # noqa: BLE001
                            ctx.fail(f'{fname}/empty_given_inner_wrong_exception', f'{type(e).__name__}: {e}')
                if M == 0:
                    try:
                        optree.tree_transpose_map(lambda x: 0, o, **kw)
                        ctx.fail('transpose_map/empty_accepted', f'O={O}')
                    except ValueError:
                        pass
                    except Exception as e:  # noqa: BLE001
                        ctx.fail('transpose_map/empty_wrong_exception', f'{type(e).__name__}: {e}')
                return
            # ---- index law
            try:
                res = optree.tree_transpose(O, I, comp, **tkw)
            except Exception as e:  # noqa: BLE001
                ctx.fail('transpose/raises', f'{type(e).__name__}: {e}; O={O} I={I}')
                return
            want = model.rebuild(msi, iter([model.rebuild(mso, iter([lab[a][b] for a in range(M)])) for b in range(N)]))
            d = model.same_tree(want, res)
            if d:
                ctx.fail('transpose/index_law', d)
            rs = optree.tree_structure(res, **kw)
            if not (rs == I.compose(O)):
                ctx.fail('transpose/structure', f'{rs} vs {I.compose(O)}')
            # ---- involution
            try:
                back = optree.tree_transpose(I, O, res, **tkw)
                d = model.same_tree(comp, back)
                if d:
                    ctx.fail('transpose/involution', d)
            except Exception as e:  # noqa: BLE001
                ctx.fail('transpose/involution_raises', f'{type(e).__name__}: {e}')
            # ---- injected mismatches must raise
            fault = case['fault']
            if fault:
                ctx.label(f'fault:{fault}')
                try:
                    if fault == 'nil':
                        I2 = optree.tree_structure(i_, **dict(kw, none_is_leaf=not cfg['nil']))
                        optree.tree_transpose(O, I2, comp, **tkw)
                        ctx.fail('transpose/nil_mismatch_accepted', f'O={O} I={I2}')
                    elif fault == 'ns':
                        # two specs with different non-empty recorded namespaces
                        O2 = optree.tree_structure(U.CN(o, 0), **dict(kw, namespace=U.NS))
                        with optree.dict_insertion_ordered(True, namespace='other-ns'):
                            I3 = optree.tree_structure({'k': i_}, **dict(kw, namespace='other-ns'))
                        if O2.namespace and I3.namespace and O2.namespace != I3.namespace:
                            optree.tree_transpose(O2, I3, 0)
                            ctx.fail('transpose/ns_mismatch_accepted', f'{O2.namespace!r} vs {I3.namespace!r}')
                    elif fault == 'count':
                        optree.tree_transpose(O, I, (comp, U.Leaf(7)), **tkw)
                        ctx.fail('transpose/wrong_count_accepted', '')
                except (ValueError, TypeError):
                    pass
                except Exception as e:  # noqa: BLE001
                    ctx.fail('transpose/fault_wrong_exception', f'{fault}: {type(e).__name__}: {e}')
            # ---- tree_transpose_map
            self.transpose_map(case, cfg, kw, m, o, mso, msi, I, ctx)

    @staticmethod
    def leaf_maker(case, cfg):
        """labelled leaf (a, b): a Leaf object; a marker 3-tuple when the predicate is `marker3` (it would be
        traversed if some internal flatten forgot the predicate); None for some positions when None is a leaf"""
        marker = cfg['pred'] == 'marker3'
        nones = cfg['nil'] and case.get('nones')

        def mk(a, b):
            if nones and (a + 2 * b) % 3 == 0:
                return None
            return ('\u00a7', a, b) if marker else U.Leaf(1001 + 2 * (a * 100 + b))
        return mk

    def transpose_map(self, case, cfg, kw, m, o, mso, msi, I, ctx):
        rests = [gen.build(r) for r in case['rests']]
        m0 = model.Model(cfg['nil'], cfg['ns'], None, gen.insertion_mode(cfg))
        mk = self.leaf_maker(case, cfg)
        if cfg['pred'] == 'marker3' or (cfg['nil'] and case.get('nones')):
            # the mapped tree itself carries marker / None leaves (same structure, rebuilt by the model)
            o = model.rebuild(mso, iter([mk(a, -1) for a in range(mso.num_leaves())]))
        oleaves, opaths, _ = m.flatten(o)
        if not all(model.spec_prefix(mso, m0.structure(r)) for r in rests):
            return
        M, N = len(oleaves), msi.num_leaves()
        vary = case['vary'] if M >= 2 and not msi.is_leaf else None   # a bare-leaf inner spec matches any result
        for name, fn, extra in (('tree_transpose_map', optree.tree_transpose_map, None),
                                ('tree_transpose_map_with_path', optree.tree_transpose_map_with_path, 'path'),
                                ('tree_transpose_map_with_accessor', optree.tree_transpose_map_with_accessor, 'acc')):
            calls = []

            def f(*args):
                k = len(calls)
                calls.append(args)
                row = [mk(k, b) for b in range(N)]
                out = model.rebuild(msi, iter(row))
                if vary and ((vary == 'second' and k == 1) or (vary == 'last' and k == M - 1)):
                    if msi.kind == 'tuple' and len(msi.children) <= 2:
                        # same arity and children, but a tuple *subclass* (namedtuple) where a plain tuple is expected
                        return [U.NT0, U.NT1, U.NT2][len(msi.children)](*out)
                    return U.CG(out, tag='vary')      # a shape no generated inner structure is a prefix of
                return out

            kws = dict(kw)
            if case['given_inner']:
                kws['inner_treespec'] = I
            try:
                res = fn(f, o, *rests, **kws)
                raised = None
            except ValueError as e:
                raised = e
            except Exception as e:  # noqa: BLE001
                ctx.fail(f'{name}/wrong_exception', f'{type(e).__name__}: {e}')
                continue
            if vary:
                ctx.label('varying_inner_shape')
                if raised is None:
                    ctx.fail(f'{name}/varying_shape_accepted', f'vary={vary}')
                continue
            if raised is not None:
                ctx.fail(f'{name}/unexpected_ValueError', str(raised))
                continue
            if len(calls) != M:
                ctx.fail(f'{name}/call_count', f'{len(calls)} vs {M}')
                continue
            for k, args in enumerate(calls):
                if extra == 'path':
                    if not compare.path_same(tuple(args[0]), tuple(opaths[k])):
                        ctx.fail(f'{name}/path_arg', f'{args[0]!r} vs {opaths[k]!r}')
                    args = args[1:]
                elif extra == 'acc':
                    if not compare.path_same(args[0].path, tuple(opaths[k])):
                        ctx.fail(f'{name}/accessor_arg', f'{args[0]!r} vs {opaths[k]!r}')
                    args = args[1:]
                want = (oleaves[k], *[model.navigate(m0, r, opaths[k]) for r in rests])
                if len(args) != len(want) or any(x is not y for x, y in zip(args, want)):
                    ctx.fail(f'{name}/args', f'call {k}: {args!r} vs {want!r}')
                    break
            want = model.rebuild(msi, iter([model.rebuild(mso, iter([mk(a, b) for a in range(M)])) for b in range(N)]))
            d = model.same_tree(want, res, leaf_eq=LBL)
            if d:
                ctx.fail(f'{name}/result', d)
            ctx.label('transpose_map_checked')


PROP = C10()
if __name__ == '__main__':
    runner.main(PROP)
