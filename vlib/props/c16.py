"""C16  no input can make the extension touch invalid memory or overflow the stack.

Everything that can kill the interpreter runs in a worker subprocess that imports the
ASan+UBSan build of the engine (LD_PRELOAD=libasan, PYTHONMALLOC=malloc); the worker journals the
cell it is about to run, so a SIGSEGV / sanitizer abort identifies its input.  Parts:
  depth     : chains around MAX_RECURSION_DEPTH for every node kind x traversal, at-limit trees through ~25 ops
  selfref   : self-referential containers, never-terminating custom flatten
  mutation  : traversal x container x callback position x mutation kind x every callback index
  args      : out-of-range / mismatched arguments of treespec methods
  program   : Hypothesis-generated API-confusion programs over a mixed object pool
"""
from __future__ import annotations

import json
import os
import subprocess
import sys

from hypothesis import strategies as st

from vlib import runner

TRAVERSALS = ('flatten', 'with_path', 'iter', 'leaves_pred', 'flatten_up_to', 'map', 'broadcast_common', 'prefix_errors',
              'from_collection', 'paths', 'unflatten')
CONTAINERS = ('list', 'dict', 'od', 'dd', 'deque', 'custom_list', 'nested_list', 'tuple_of_lists')
POSITIONS = ('pred', 'flatten', 'key_lt', 'key_hash', 'key_eq', 'unflatten', 'map_fn')
MUTATIONS = ('del_first', 'del_last', 'clear', 'append', 'replace', 'shrink_half', 'grow_many')
DEPTH_KINDS = ('list', 'tuple', 'dict', 'od', 'dd', 'deque', 'nt', 'cg', 'fn')
DEPTH_OPS = ('flatten', 'with_path', 'iter')


# =============================================================== worker side
def worker_main():
    import faulthandler
    faulthandler.enable()
    sys.setrecursionlimit(100000)
    import threading
    threading.stack_size(256 * 1024 * 1024)
    out = sys.stdout
    done = []

    def loop():
        for line in sys.stdin:
            cell = json.loads(line)
            runner.journal(cell)
            try:
                res = run_cell(cell)
            except BaseException as e:  # noqa: BLE001
                res = {'status': 'harness', 'msg': f'{type(e).__name__}: {e}'}
            out.write(json.dumps(res, default=repr) + '\n')
            out.flush()
        done.append(1)

    # run in a thread with a big stack so that *Python-level* recursion of pure-Python helpers is
    # not what limits depth (the engine's own limit is what the property is about)
    t = threading.Thread(target=loop)
    t.start()
    t.join()


def touch(x, depth=0):
    """use every object of a result (freed memory => sanitizer report)"""
    import optree
    if depth > 3:
        return
    if isinstance(x, (list, tuple)):
        for y in x[:50]:
            touch(y, depth + 1)
    elif isinstance(x, dict):
        for k, v in list(x.items())[:50]:
            touch(k, depth + 1)
            touch(v, depth + 1)
    elif isinstance(x, optree.PyTreeSpec):
        if x.num_nodes < 3000:
            repr(x)
            x.num_leaves
    else:
        try:
            type(x).__name__
            hash(x)
        except Exception:  # noqa: BLE001
            pass


def run_cell(cell):
    kind = cell['kind']
    if kind == 'mutation':
        return cell_mutation(cell)
    if kind == 'depth':
        return cell_depth(cell)
    if kind == 'selfref':
        return cell_selfref(cell)
    if kind == 'args':
        return cell_args(cell)
    if kind == 'program':
        return cell_program(cell)
    if kind == 'count':
        return cell_mutation(cell, count_only=True)
    if kind == 'malformed':
        return cell_malformed(cell)
    if kind == 'deepspec':
        return cell_deepspec(cell)
    if kind == 'pairs':
        return cell_pairs(cell)
    if kind == 'setstate':
        return cell_setstate(cell)
    if kind == 'setstate_sweep':
        return cell_setstate_sweep(cell)
    return {'status': 'harness', 'msg': 'unknown cell'}


def outcome(fn):
    """run fn; classify"""
    try:
        r = fn()
        touch(r)
        return {'status': 'ok'}
    except RecursionError:
        return {'status': 'exc', 'type': 'RecursionError'}
    except BaseException as e:  # noqa: BLE001
        name = type(e).__name__
        return {'status': 'exc', 'type': name, 'msg': str(e)[:200]}


# ------------------------------------------------------------------ mutation cells
class Obj:
    """heap-allocated, otherwise unreferenced element"""
    __slots__ = ('n', '__weakref__')

    def __init__(self, n):
        self.n = n

    def __repr__(self):
        return f'Obj({self.n})'


def build_container(kind, elem):
    """-> (root tree, target container, mutate(kind) function)"""
    from collections import OrderedDict, defaultdict, deque
    from vlib import universe as U
    n = 5

    if kind in ('list', 'nested_list', 'tuple_of_lists'):
        c = [elem(i) for i in range(n)]
    elif kind in ('dict', 'od', 'dd'):
        items = [(U.FK(i), elem(i)) for i in range(n)]
        c = {'dict': dict, 'od': OrderedDict}.get(kind, lambda it: defaultdict(int, it))(items)
    elif kind == 'deque':
        c = deque(elem(i) for i in range(n))
    elif kind == 'custom_list':
        c = FL([elem(i) for i in range(n)])
    else:
        raise ValueError(kind)
    if kind == 'nested_list':
        root = [Obj(100), [Obj(101), c, Obj(102)], Obj(103)]
    elif kind == 'tuple_of_lists':
        root = (c, [elem(50), elem(51)])
    else:
        root = [Obj(100), c, Obj(103)]
    target = c.ch if kind == 'custom_list' else c

    def mutate(how):
        t = target
        if isinstance(t, list):
            if how == 'del_first' and t:
                del t[0]
            elif how == 'del_last' and t:
                del t[-1]
            elif how == 'clear':
                t.clear()
            elif how == 'append':
                t.append(elem(900))
            elif how == 'replace':
                t[:] = [elem(800 + i) for i in range(len(t))]
            elif how == 'shrink_half':
                del t[len(t) // 2:]
            elif how == 'grow_many':
                t.extend(elem(700 + i) for i in range(200))
        elif isinstance(t, dict):
            ks = list(dict.keys(t))
            if how == 'del_first' and ks:
                dict.pop(t, ks[0], None)
            elif how == 'del_last' and ks:
                dict.pop(t, ks[-1], None)
            elif how == 'clear':
                t.clear()
            elif how == 'append':
                t[U.FK(900)] = elem(900)
            elif how == 'replace':
                for k in ks:
                    t[k] = elem(800)
            elif how == 'shrink_half':
                for k in ks[len(ks) // 2:]:
                    dict.pop(t, k, None)
            elif how == 'grow_many':
                for i in range(200):
                    t[U.FK(700 + i)] = elem(700 + i)
        else:   # deque
            if how == 'del_first' and t:
                t.popleft()
            elif how == 'del_last' and t:
                t.pop()
            elif how == 'clear':
                t.clear()
            elif how == 'append':
                t.append(elem(900))
            elif how == 'replace':
                k = len(t)
                t.clear()
                t.extend(elem(800 + i) for i in range(k))
            elif how == 'shrink_half':
                for _ in range(len(t) // 2):
                    t.pop()
            elif how == 'grow_many':
                t.extend(elem(700 + i) for i in range(200))

    return root, target, mutate


class FL:
    """custom node whose flatten hands out its own children *list object*"""

    def __init__(self, ch):
        self.ch = ch


def _register_fl():
    import optree
    from vlib import universe as U

    def fl_flatten(o):
        U.TICK.tick('flatten')
        return o.ch, None

    def fl_unflatten(m, c):
        U.TICK.tick('unflatten')
        return FL(list(c))

    try:
        optree.register_pytree_node(FL, fl_flatten, fl_unflatten, namespace=U.NSF)
    except ValueError:
        pass


def cell_mutation(cell, count_only=False):
    import gc

    import optree
    from vlib import universe as U
    _register_fl()
    T = U.TICK
    trav, cont, pos, how, k = cell['traversal'], cell['container'], cell['position'], cell['mutation'], cell.get('k')
    leafy = pos not in ('flatten', 'unflatten')
    elem = (lambda i: Obj(i)) if leafy else (lambda i: U.FN([Obj(i), Obj(i + 1000)], None))
    root, target, mutate = build_container(cont, elem)
    other, _t2, _m2 = build_container(cont, elem)
    ns = U.NSF

    def pred(x):
        T.tick('pred')
        return False

    def fmap(x, *r):
        T.tick('map_fn')
        return x

    spec0 = optree.tree_structure(other, namespace=ns)
    leaves0 = optree.tree_leaves(other, namespace=ns)
    leafspec = optree.treespec_leaf()
    ops = {
        'flatten': lambda: optree.tree_flatten(root, is_leaf=pred, namespace=ns),
        'with_path': lambda: optree.tree_flatten_with_path(root, is_leaf=pred, namespace=ns),
        'iter': lambda: list(optree.tree_iter(root, is_leaf=pred, namespace=ns)),
        'leaves_pred': lambda: (optree.tree_leaves(root, is_leaf=pred, namespace=ns), optree.all_leaves(target if isinstance(target, list) else list(target), is_leaf=pred, namespace=ns)),
        'flatten_up_to': lambda: spec0.flatten_up_to(root),
        'map': lambda: optree.tree_map(fmap, root, root, is_leaf=pred, namespace=ns),
        'broadcast_common': lambda: optree.tree_broadcast_common(root, other, is_leaf=pred, namespace=ns),
        'prefix_errors': lambda: optree.prefix_errors(root, other, is_leaf=pred, namespace=ns),
        'from_collection': lambda: optree.treespec_from_collection(
            _spec_collection(cont, target, leafspec), namespace=ns),
        'paths': lambda: (optree.tree_paths(root, is_leaf=pred, namespace=ns), optree.tree_accessors(root, is_leaf=pred, namespace=ns)),
        'unflatten': lambda: spec0.unflatten(leaves0),
    }
    op = ops[trav]
    # dry run: number of callback invocations of the requested kind
    T.arm(None)
    try:
        op()
    except Exception:  # noqa: BLE001
        pass
    idx = [i + 1 for i, kd in enumerate(T.kinds) if kd == pos]
    if count_only:
        T.reset()
        return {'status': 'count', 'K': len(idx)}
    if k is None or k > len(idx):
        T.reset()
        return {'status': 'skip'}
    fire_at = idx[k - 1]

    def hook(count, kd):
        if count == fire_at:
            mutate(how)
            gc.collect()

    T.arm(None, hook=hook)
    res = outcome(op)
    T.reset()
    gc.collect()
    # afterwards the library still works
    after = outcome(lambda: optree.tree_flatten(other, namespace=ns))
    if after['status'] != 'ok':
        res = {'status': 'exc_after', 'msg': repr(after)}
    return res


def _spec_collection(cont, target, leafspec):
    from collections import OrderedDict, defaultdict, deque
    if isinstance(target, dict):
        t = type(target)
        items = [(k, leafspec) for k in dict.keys(target)]
        return defaultdict(int, items) if t is defaultdict else t(items)
    if isinstance(target, deque):
        return deque(leafspec for _ in target)
    return [leafspec for _ in target]


# ------------------------------------------------------------------ depth cells
def cell_depth(cell):
    import pickle

    import optree
    from vlib import universe as U
    from vlib.props.c03 import deep
    k, depth = cell['container'], cell['depth']
    ns = U.NSF if k == 'fn' else ''
    if k == 'fn':
        x = 1
        for _ in range(depth):
            x = U.FN([x], None)
        tree = x
    else:
        tree = deep(k, depth, 1)
    U.TICK.reset()
    limit = optree.MAX_RECURSION_DEPTH
    res = {}
    from vlib import gen
    pred = gen.PREDICATES[cell.get('pred', 'none')]
    fns = {'flatten': lambda: optree.tree_flatten(tree, is_leaf=pred, namespace=ns),
           'with_path': lambda: optree.tree_flatten_with_path(tree, is_leaf=pred, namespace=ns),
           'iter': lambda: list(optree.tree_iter(tree, is_leaf=pred, namespace=ns))}
    for name, fn in fns.items():
        o = outcome(fn)
        res[name] = o.get('type') if o['status'] == 'exc' else None
    inner = U.FN([1], None) if k == 'fn' else deep(k, 1, 1)
    deepest = depth - 1 if (cell.get('pred') == 'holds_one_int' and depth >= 1 and pred(inner)) else depth
    out = {'status': 'depth', 'verdicts': res, 'expect': 'RecursionError' if deepest > limit else None}
    if depth <= limit and cell.get('ops'):
        leaves, spec = optree.tree_flatten(tree, namespace=ns)
        other = optree.tree_structure(tree, namespace=ns)
        ops = {
            'unflatten': lambda: spec.unflatten(leaves), 'map': lambda: optree.tree_map(lambda x, y: x, tree, tree, namespace=ns),
            'paths': lambda: spec.paths(), 'accessors': lambda: spec.accessors(), 'repr': lambda: repr(spec),
            'hash': lambda: hash(spec), 'eq': lambda: spec == other, 'is_prefix': lambda: spec.is_prefix(other),
            'pickle': lambda: pickle.loads(pickle.dumps(spec)), 'flatten_up_to': lambda: spec.flatten_up_to(tree),
            'children': lambda: spec.children(), 'child': lambda: spec.child(0), 'one_level': lambda: spec.one_level(),
            'compose': lambda: spec.compose(spec).num_nodes, 'transform': lambda: spec.transform(lambda s: s),
            'broadcast': lambda: spec.broadcast_to_common_suffix(other), 'traverse': lambda: spec.traverse(leaves, lambda x: x),
            'walk': lambda: spec.walk(leaves, lambda t, d, c: c), 'tree_broadcast_common': lambda: optree.tree_broadcast_common(tree, tree, namespace=ns),
            'prefix_errors': lambda: optree.prefix_errors(tree, tree, namespace=ns),
            'tree_paths': lambda: optree.tree_paths(tree, namespace=ns), 'tree_accessors': lambda: optree.tree_accessors(tree, namespace=ns),
            'transpose_map': lambda: optree.tree_transpose_map(lambda x: (x, x), tree, namespace=ns),
            'replace_nones': lambda: optree.tree_replace_nones(0, tree, namespace=ns),
            'compose_unflatten': lambda: spec.compose(spec).unflatten([1]),
        }
        bad = {}
        for name, fn in ops.items():
            o = outcome(fn)
            if o['status'] != 'ok':
                bad[name] = o
        out['at_limit_failures'] = bad
    return out


PAIR_KINDS = ('list', 'tuple', 'dict', 'od', 'dd', 'dd_none', 'deque', 'deque_maxlen', 'nt', 'ss', 'cg', 'fn', 'none', 'leaf',
              'empty_list', 'empty_dict', 'empty_dd', 'dict_other_keys', 'dict3')


def _pair_tree(kind):
    import os
    from collections import OrderedDict, defaultdict, deque
    from vlib import universe as U
    a, b = U.Leaf(1), U.Leaf(2)
    return {
        'list': lambda: [a, b], 'tuple': lambda: (a, b), 'dict': lambda: {'x': a, 'y': b}, 'od': lambda: OrderedDict(y=a, x=b),
        'dd': lambda: defaultdict(int, {'x': a, 'y': b}), 'dd_none': lambda: defaultdict(None, {'y': a, 'x': b}),
        'deque': lambda: deque([a, b]), 'deque_maxlen': lambda: deque([a, b], maxlen=5), 'nt': lambda: U.NT2(a, b),
        'ss': lambda: os.terminal_size((3, 4)), 'cg': lambda: U.CG(a, b), 'fn': lambda: U.FN([a, b], None), 'none': lambda: None,
        'leaf': lambda: a, 'empty_list': lambda: [], 'empty_dict': lambda: {}, 'empty_dd': lambda: defaultdict(list),
        'dict_other_keys': lambda: {'x': a, 'z': b}, 'dict3': lambda: {'x': a, 'y': b, 'w': [a]},
    }[kind]()


def cell_pairs(cell):
    """every binary treespec / tree operation on operands of (mis)matching kinds: a result or an exception, no crash"""
    import optree
    from vlib import universe as U
    ka = cell['a']
    ns = U.NSF
    calls = exc = internal = 0
    for nil in (False, True):
        ta = _pair_tree(ka)
        A = optree.tree_structure(ta, none_is_leaf=nil, namespace=ns)
        for kb in PAIR_KINDS:
            tb = _pair_tree(kb)
            B = optree.tree_structure(tb, none_is_leaf=nil, namespace=ns)
            for fn in (lambda: A.broadcast_to_common_suffix(B), lambda: B.broadcast_to_common_suffix(A), lambda: A.is_prefix(B),
                       lambda: A.is_suffix(B), lambda: (A == B, A != B, A <= B, A < B), lambda: A.compose(B), lambda: A.flatten_up_to(tb),
                       lambda: B.flatten_up_to(ta), lambda: optree.tree_broadcast_common(ta, tb, none_is_leaf=nil, namespace=ns),
                       lambda: optree.tree_broadcast_prefix(ta, tb, none_is_leaf=nil, namespace=ns),
                       lambda: optree.tree_map(lambda x, y: x, ta, tb, none_is_leaf=nil, namespace=ns),
                       lambda: optree.tree_map_with_path(lambda p, x, y: x, ta, tb, none_is_leaf=nil, namespace=ns),
                       lambda: optree.prefix_errors(ta, tb, none_is_leaf=nil, namespace=ns),
                       lambda: optree.tree_broadcast_map(lambda x, y: x, ta, tb, none_is_leaf=nil, namespace=ns),
                       lambda: optree.tree_transpose(A, B, ta), lambda: A.unflatten(B.flatten_up_to(tb)) if A.num_leaves == B.num_leaves else None):
                calls += 1
                o = outcome(fn)
                if o['status'] == 'exc':
                    exc += 1
                    if o['type'] in ('InternalError', 'SystemError'):
                        internal += 1
    return {'status': 'pairs', 'calls': calls, 'exc': exc, 'internal_errors': internal}


def cell_deepspec(cell):
    """a treespec nested deeper than any tree can be (only compose / transform can make one): every method
    must answer or raise, never overflow the C stack"""
    import optree
    import pickle
    from vlib import universe as U
    from vlib.props.c03 import deep
    k, depth, method = cell['container'], cell['depth'], cell['method']
    ns = U.NSF if k == 'fn' else ''
    limit = optree.MAX_RECURSION_DEPTH

    def chain(d):
        if k == 'fn':
            x = 1
            for _ in range(d):
                x = U.FN([x], None)
            return optree.tree_structure(x, namespace=ns)
        return optree.tree_structure(deep(k, d, 1), namespace=ns)
    U.TICK.reset()
    spec = chain(min(depth, limit))
    have = min(depth, limit)
    unit = spec
    while have < depth:                    # compose adds depths
        if have * 2 <= depth:
            spec = spec.compose(spec)
            have *= 2
        else:
            step = min(depth - have, limit)
            spec = spec.compose(unit if step == limit else chain(step))
            have += step
    U.TICK.reset()
    n = spec.num_nodes
    if n != depth + 1 or spec.num_leaves != 1:
        return {'status': 'harness', 'msg': f'built {n} nodes for depth {depth}'}
    leafspec = optree.tree_structure(1)
    check = None
    if method == 'paths':
        fn, check = (lambda: spec.paths()), (lambda r: len(r) == 1 and len(r[0]) == depth)
    elif method == 'accessors':
        fn, check = (lambda: spec.accessors()), (lambda r: len(r) == 1 and len(r[0]) == depth)
    elif method == 'broadcast_self':
        fn, check = (lambda: spec.broadcast_to_common_suffix(spec)), (lambda r: r.num_nodes == n and r == spec)
    elif method == 'broadcast_leaf':
        fn, check = (lambda: leafspec.broadcast_to_common_suffix(spec)), (lambda r: r.num_nodes == n and r == spec)
    elif method == 'broadcast_shallow':
        sh = chain(3)
        fn, check = (lambda: sh.broadcast_to_common_suffix(spec)), (lambda r: r.num_nodes == n)
    elif method == 'is_prefix':
        fn, check = (lambda: (spec.is_prefix(spec), spec.is_suffix(spec), spec <= spec, spec < spec)), (lambda r: r == (True, True, True, False))
    elif method == 'eq_hash':
        other = spec.compose(leafspec)
        fn, check = (lambda: (spec == other, hash(spec) == hash(other))), (lambda r: r == (True, True))
    elif method == 'repr':
        fn, check = (lambda: len(repr(spec)) + len(str(spec))), (lambda r: r > 2 * depth)
    elif method == 'unflatten':
        def fn():
            t = spec.unflatten([7])
            d = 0
            while not isinstance(t, int):    # walk down without recursion
                t = t.ch[0] if k == 'fn' else (next(iter(t.values())) if isinstance(t, dict) else
                                              (t.children[0] if k == 'cg' else t[0]))
                d += 1
            return d
        check = lambda r: r == depth  # noqa: E731
    elif method == 'children':
        fn, check = (lambda: (spec.children(), spec.child(0), spec.one_level(), spec.entries(), spec.entry(0))), \
            (lambda r: len(r[0]) == 1 and r[0][0].num_nodes == n - 1 and r[1].num_nodes == n - 1 and r[2].num_nodes == 2)
    elif method == 'transform':
        fn, check = (lambda: spec.transform(lambda s: s, lambda s: s)), (lambda r: r == spec)
    elif method == 'compose':
        fn, check = (lambda: spec.compose(spec)), (lambda r: r.num_nodes == 2 * depth + 1)
    elif method == 'pickle':
        fn, check = (lambda: pickle.loads(pickle.dumps(spec))), (lambda r: r == spec and r.num_nodes == n)
    elif method == 'walk':
        fn, check = (lambda: spec.walk([1], lambda t, d, c: 1 + c[0] if c else 1, lambda x: 0)), (lambda r: r == depth)
    elif method == 'traverse':
        fn, check = (lambda: spec.traverse([1], lambda x: 0, lambda x: 5)), None
    elif method == 'py_ops':
        fn = lambda: (optree.treespec_paths(spec), optree.treespec_accessors(spec), optree.treespec_is_prefix(spec, spec),  # noqa: E731
                      optree.treespec_child(spec, 0), optree.treespec_one_level(spec))
    else:
        return {'status': 'harness', 'msg': method}
    out = {'status': 'deepspec', 'verdict': None, 'consistent': True}

    def body():
        try:
            r = fn()
        except RecursionError:
            out['verdict'] = 'RecursionError'
        except BaseException as e:  # noqa: BLE001
            out['verdict'] = type(e).__name__
            out['msg'] = str(e)[:200]
        else:
            if check is not None and not check(r):
                out['consistent'] = False
                out['msg'] = repr(r)[:200]
            del r
    # the call runs on an ordinary-sized stack (4 x the 8 MiB default: sanitizer frames are up to ~7x larger), not on
    # the worker's 256 MiB one: unbounded native recursion must show up at realistic depths
    import threading
    old = threading.stack_size(32 * 1024 * 1024)
    try:
        t = threading.Thread(target=body)
        t.start()
        t.join()
    finally:
        threading.stack_size(old)
    return out


DEEPSPEC_METHODS = ('paths', 'accessors', 'broadcast_self', 'broadcast_leaf', 'broadcast_shallow', 'is_prefix', 'eq_hash', 'repr',
                    'unflatten', 'children', 'transform', 'compose', 'pickle', 'walk', 'traverse', 'py_ops')


def cell_selfref(cell):
    import optree
    from vlib import universe as U
    from collections import OrderedDict, defaultdict, deque
    k = cell['container']
    ns = U.NSF
    if k == 'list':
        t = [1]
        t.append(t)
    elif k == 'dict':
        t = {'a': 1}
        t['self'] = t
    elif k == 'od':
        t = OrderedDict(a=1)
        t['self'] = t
    elif k == 'dd':
        t = defaultdict(int, a=1)
        t['self'] = t
    elif k == 'deque':
        t = deque([1])
        t.append(t)
    elif k == 'custom':
        t = U.FN([1], None)
        t.ch.append(t)
    elif k == 'mutual':
        a, b = [1], {'k': 2}
        a.append(b)
        b['a'] = a
        t = (a, b)
    elif k == 'endless_flatten':
        t = Endless()
        _register_endless()
    else:
        return {'status': 'harness', 'msg': k}
    U.TICK.reset()
    res = {}
    for name, fn in (('flatten', lambda: optree.tree_flatten(t, namespace=ns)),
                     ('with_path', lambda: optree.tree_flatten_with_path(t, namespace=ns)),
                     ('iter', lambda: list(optree.tree_iter(t, namespace=ns))),
                     ('map', lambda: optree.tree_map(lambda x: x, t, namespace=ns)),
                     ('structure', lambda: optree.tree_structure(t, namespace=ns)),
                     ('is_leaf', lambda: optree.tree_is_leaf(t, namespace=ns)),
                     ('leaves', lambda: optree.tree_leaves(t, namespace=ns)),
                     ('paths', lambda: optree.tree_paths(t, namespace=ns)),
                     ('broadcast', lambda: optree.tree_broadcast_common(t, t, namespace=ns))):
        o = outcome(fn)
        res[name] = o.get('type') if o['status'] == 'exc' else None
    return {'status': 'selfref', 'verdicts': res}


class Endless:
    pass


def _register_endless():
    import optree
    from vlib import universe as U
    try:
        optree.register_pytree_node(Endless, lambda o: ((Endless(),), None), lambda m, c: Endless(), namespace=U.NSF)
    except ValueError:
        pass


# ------------------------------------------------------------------ malformed custom flatten returns
class Mal:
    def __init__(self, nch, nent, kind):
        self.nch, self.nent, self.kind = nch, nent, kind


def _register_mal():
    import optree
    from vlib import universe as U

    def fl(o):
        ch = [Obj(i) for i in range(o.nch)]
        ent = tuple(f'e{i}' for i in range(o.nent))
        if o.kind == 'list_entries':
            ent = list(ent)
        elif o.kind == 'iter_children':
            ch = iter(ch)
        elif o.kind == 'gen_entries':
            ent = (e for e in ent)
        elif o.kind == 'nested':
            ch = [Mal(2, 0, 'tuple') if i == 0 else c for i, c in enumerate(ch)]
        return ch, None, ent

    try:
        optree.register_pytree_node(Mal, fl, lambda m, c: None, namespace=U.NSF)
    except ValueError:
        pass


def cell_malformed(cell):
    import optree
    from vlib import universe as U
    _register_mal()
    ns = U.NSF
    t = [Obj(1), Mal(cell['nch'], cell['nent'], cell['how']), {'k': Mal(cell['nch'], cell['nent'], cell['how'])}]
    res = {}
    for name, fn in (('flatten', lambda: optree.tree_flatten(t, namespace=ns)),
                     ('with_path', lambda: optree.tree_flatten_with_path(t, namespace=ns)),
                     ('iter', lambda: list(optree.tree_iter(t, namespace=ns))),
                     ('accessors', lambda: optree.tree_flatten_with_accessor(t, namespace=ns)),
                     ('map_with_path', lambda: optree.tree_map_with_path(lambda p, x: x, t, namespace=ns)),
                     ('one_level', lambda: optree.tree_flatten_one_level(t[1], namespace=ns)),
                     ('from_collection', lambda: optree.treespec_from_collection(t[1], namespace=ns)),
                     ('broadcast', lambda: optree.tree_broadcast_common(t, t, namespace=ns)),
                     ('prefix_errors', lambda: optree.prefix_errors(t, t, namespace=ns))):
        o = outcome(fn)
        res[name] = o.get('type') if o['status'] == 'exc' else None
    return {'status': 'malformed', 'verdicts': res, 'consistent': cell['nch'] == cell['nent']}


# ------------------------------------------------------------------ argument cells
def cell_args(cell):
    import optree
    from vlib import universe as U
    spec = optree.tree_structure({'b': (1, [2, 3]), 'a': U.CG(4, 5)})
    leaf = optree.treespec_leaf()
    nil_spec = optree.tree_structure([None, 1], none_is_leaf=True)
    big = [2 ** 31, 2 ** 63 - 1, 2 ** 63, 2 ** 64, -2 ** 63, -2 ** 63 - 1, 10 ** 30, -1, -3, 3, 99]
    weird = [None, 1.5, 'x', (), [], {}, object(), spec, leaf, lambda *a: None, b'x', iter([1]), optree.tree_iter([1]),
             spec.accessors(), type, NotImplemented, Ellipsis]
    calls = []
    for i in big + weird:
        calls += [lambda i=i: spec.child(i), lambda i=i: spec.entry(i), lambda i=i: leaf.child(i), lambda i=i: leaf.entry(i),
                  lambda i=i: spec.unflatten(i), lambda i=i: spec.flatten_up_to(i), lambda i=i: spec.compose(i),
                  lambda i=i: spec.is_prefix(i), lambda i=i: spec == i, lambda i=i: spec < i, lambda i=i: spec.transform(i, i),
                  lambda i=i: spec.traverse(i), lambda i=i: spec.walk([1] * 5, i, i), lambda i=i: spec.broadcast_to_common_suffix(i),
                  lambda i=i: spec.is_leaf(strict=i), lambda i=i: optree.tree_unflatten(i, [1]), lambda i=i: optree.tree_transpose(i, spec, 0),
                  lambda i=i: optree.tree_transpose(spec, i, 0), lambda i=i: optree.treespec_from_collection(i),
                  lambda i=i: optree.treespec_tuple(i), lambda i=i: optree.treespec_dict(i), lambda i=i: optree.treespec_deque([leaf], maxlen=i),
                  lambda i=i: optree.treespec_defaultdict(i, {'a': leaf}), lambda i=i: optree.treespec_namedtuple(i),
                  lambda i=i: optree.treespec_structseq(i), lambda i=i: optree.tree_flatten(1, is_leaf=i),
                  lambda i=i: optree.tree_flatten(1, none_is_leaf=i), lambda i=i: optree.tree_flatten(1, namespace=i),
                  lambda i=i: optree.tree_iter(i, i, i, i) if False else optree._C.PyTreeIter(i, None, False, ''),
                  lambda i=i: optree.PyTreeAccessor(i), lambda i=i: optree.SequenceEntry(i, list, optree.PyTreeKind.LIST)(i),
                  lambda i=i: spec.__setstate__(i), lambda i=i: optree._C.make_from_collection(i, i, i),
                  lambda i=i: optree._C.flatten(i, i, i, i), lambda i=i: optree._C.is_namedtuple_class(i),
                  lambda i=i: optree._C.structseq_fields(i), lambda i=i: optree._C.namedtuple_fields(i),
                  lambda i=i: optree._C.register_node(i, i, i, i, 'zz'), lambda i=i: optree._C.unregister_node(i, 'zz'),
                  lambda i=i: optree._C.set_dict_insertion_ordered(False, i) if isinstance(i, str) else optree._C.is_dict_insertion_ordered(i),
                  lambda i=i: nil_spec.compose(spec), lambda i=i: spec.unflatten([i] * 5), lambda i=i: spec.unflatten(iter([i] * 4)),
                  lambda i=i: spec.walk(iter([i] * 6)), lambda i=i: spec.transform(lambda s: i), lambda i=i: spec.transform(None, lambda s: i)]
    n = 0
    internal = 0
    for c in calls:
        o = outcome(c)
        n += 1
        if o['status'] == 'exc' and o['type'] in ('InternalError', 'SystemError'):
            internal += 1
    # malformed pickle states: must raise or give a usable spec
    st0 = spec.__getstate__()
    nodes, nil, ns = st0
    variants = [(), (nodes,), (nodes, nil), (nodes[:-1], nil, ns), (nodes + nodes, nil, ns), (tuple(reversed(nodes)), nil, ns),
                (nodes, 5, ns), (nodes, nil, 7), ([n[:3] for n in nodes], nil, ns),
                (tuple((99,) + n[1:] for n in nodes), nil, ns), (tuple(n[:1] + (10 ** 6,) + n[2:] for n in nodes), nil, ns),
                (tuple(n[:5] + (10 ** 6, 10 ** 6) + n[7:] for n in nodes), nil, ns),
                (tuple(n[:5] + (-1, -1) + n[7:] for n in nodes), nil, ns),
                (tuple(n[:2] + (None,) + n[3:] for n in nodes), nil, ns)]
    for v in variants:
        def use(v=v):
            s = optree.PyTreeSpec.__new__(optree.PyTreeSpec)
            s.__setstate__(v)
            repr(s)
            s.paths()
            s.children()
            s.unflatten(range(s.num_leaves))
            hash(s)
            return s
        o = outcome(use)
        n += 1
    return {'status': 'args', 'calls': n, 'internal_errors': internal}


# ------------------------------------------------------------------ hostile pickle states (__setstate__)
_SS_BASES = None


def setstate_bases():
    """states of four treespecs covering every node kind (as plain lists so that they can be edited)"""
    global _SS_BASES
    if _SS_BASES is None:
        import optree
        from collections import OrderedDict, defaultdict, deque
        from vlib import universe as U
        trees = [({'b': (1, [2, 3]), 'n': None, 'd': deque([1, 2], maxlen=3), 'o': OrderedDict(z=1, y=2), 'dd': defaultdict(list, q=[1])}, False),
                 ([U.NT2(1, (2, 3)), os.terminal_size((1, 2)), U.CG(4, [5]), (), [], U.DCI(1, 2)], False),
                 ((None, {'k': None, 'j': [None]}, 7), True),
                 (5, False)]
        _SS_BASES = [optree.tree_structure(t, none_is_leaf=nil).__getstate__() for t, nil in trees]
    return _SS_BASES


def setstate_values(field, cur):
    from vlib import universe as U
    if field in (0, 1, 5, 6):
        c = cur if isinstance(cur, int) else 0
        return [0, 1, 2, 3, 4, 5, 6, 7, 8, 9, 10, -1, 10 ** 6, c + 1, c - 1, c + 2, 2 ** 63 - 1, -2 ** 63, 2 ** 64, None, 'x', 1.0]
    if field == 2:
        return [None, [], ['a'], ['a', 'b'], ['a', 'b', 'c'], (list, []), (list,), (list, ['q']), (list, ['q', 'r']), (list, 'qr'), (None, ['a'], 1),
                3, 10 ** 6, -1, list, tuple, U.NT0, U.NT1, U.NT2, U.NTSub, os.terminal_size, time_struct(), 'str', (), ('a', 'b'), U.TupleSub]
    if field == 3:
        return [None, (), ('a',), ('a', 'b'), ('a', 'b', 'c'), ['a'], 5]
    if field == 4:
        return [None, U.CG, U.DCI, list, int, 5, U.Leaf]
    return [None, [], ['a'], ['a', 'b'], ['z', 'y', 'x'], ('a',), 5]


def time_struct():
    import time
    return time.struct_time


def setstate_apply(case):
    nodes, nil, ns = setstate_bases()[case['base'] % 4]
    nodes = [list(n) for n in nodes]
    for op, i, field, vi in case['edits']:
        if not nodes:
            break
        i %= len(nodes)
        if op == 'set':
            field %= 8
            vals = setstate_values(field, nodes[i][field] if field < len(nodes[i]) else None)
            if field < len(nodes[i]):
                nodes[i][field] = vals[vi % len(vals)]
        elif op == 'del':
            del nodes[i]
        elif op == 'dup':
            nodes.insert(i, list(nodes[i]))
        elif op == 'swap':
            j = (i + 1) % len(nodes)
            nodes[i], nodes[j] = nodes[j], nodes[i]
        elif op == 'trunc':
            nodes[i] = (nodes[i] + [None, None])[:(0, 1, 6, 7, 9, 10)[vi % 6]]
        elif op == 'subtree':      # move a whole node range: take the last `field` nodes before i out
            k = 1 + field % 3
            del nodes[max(0, i - k):i]
    top = case.get('top', 0)
    if top == 1:
        nil = not nil
    elif top == 2:
        ns = 'vns'
    elif top == 3:
        nil = 'x'
    elif top == 4:
        ns = None
    state = (tuple(tuple(n) for n in nodes), nil, ns)
    if top == 5:
        state = state[:2]
    elif top == 6:
        state = [list(state[0]), nil, ns]
    return state


def setstate_use(state):
    """-> ('exc', type) | ('ok', consistent, msg)"""
    import optree
    try:
        s = optree.PyTreeSpec.__new__(optree.PyTreeSpec)
        s.__setstate__(state)
    except RecursionError:
        return ('exc', 'RecursionError')
    except Exception as e:  # noqa: BLE001
        return ('exc', type(e).__name__)
    # accepted: every inspection must be consistent with a real tree
    msgs = []
    try:
        n = s.num_leaves
        repr(s)
        try:
            hash(s)
        except TypeError:
            pass
        if not (s == s):
            msgs.append('not equal to itself')
        paths, acc, ch = s.paths(), s.accessors(), s.children()
        s.entries()
        if not (len(paths) == n and len(acc) == n):
            msgs.append(f'num_leaves={n} but {len(paths)} paths / {len(acc)} accessors')
        if s.num_children != len(ch):
            msgs.append(f'num_children={s.num_children} but {len(ch)} children')
        if s.num_nodes != len(state[0]):
            msgs.append(f'num_nodes={s.num_nodes} but {len(state[0])} node states')
        if sum(c.num_leaves for c in ch) != n - (1 if s.is_leaf() else 0):
            msgs.append('children leaves do not add up')
        if sum(c.num_nodes for c in ch) + 1 != s.num_nodes:
            msgs.append('children nodes do not add up')
        s.is_prefix(s)
        s.compose(s)
        s.transform(lambda x: x)
        s.broadcast_to_common_suffix(s)
        s.flatten_up_to(s.unflatten([0] * n)) if all(nd[0] != 0 for nd in state[0]) else None
        has_custom = any(nd[0] == 0 for nd in state[0])
        try:
            tree = s.unflatten(range(n))
        except RecursionError:
            raise
        except Exception:  # noqa: BLE001
            tree = NotImplemented      # a namedtuple / deque / custom constructor may reject the children
        if tree is not NotImplemented and not has_custom:
            leaves, s2 = optree.tree_flatten(tree, none_is_leaf=s.none_is_leaf, namespace=s.namespace)
            if leaves != list(range(n)):
                msgs.append(f'unflatten/flatten gives leaves {leaves[:8]} for {n} leaves')
            elif s2 != s:
                msgs.append(f'structure of the unflattened tree {s2!r} != {s!r}')
    except RecursionError:
        return ('exc', 'RecursionError')
    except Exception as e:  # noqa: BLE001
        # a Python exception - InternalError included - is an acceptable outcome for C16 (see ASSUMPTIONS)
        return ('exc_after', type(e).__name__)
    return ('ok', not msgs, '; '.join(msgs))


def cell_setstate(cell):
    state = setstate_apply(cell)
    r = setstate_use(state)
    return {'status': 'setstate', 'verdict': r[0], 'consistent': r[1] if r[0] == 'ok' else None,
            'msg': (r[2] if r[0] == 'ok' else r[1]), 'state': repr(state)[:400]}


def cell_setstate_sweep(cell):
    """every single-field edit of one node of one base state (journalled one by one so that a crash names the edit)"""
    b, i = cell['base'], cell['node']
    nodes = setstate_bases()[b][0]
    n = acc = 0
    bad = []
    for field in range(8):
        for vi in range(len(setstate_values(field, nodes[i][field]))):
            case = {'kind': 'setstate', 'base': b, 'edits': [['set', i, field, vi]], 'top': 0}
            runner.journal(case)
            r = setstate_use(setstate_apply(case))
            n += 1
            if r[0] == 'ok':
                acc += 1
                if not r[1]:
                    bad.append([case, r[2]])
    for op in ('del', 'dup', 'swap', 'trunc', 'subtree'):
        for vi in range(6 if op in ('trunc', 'subtree') else 1):
            for top in range(7 if op == 'dup' and i == 0 else 1):
                case = {'kind': 'setstate', 'base': b, 'edits': [[op, i, vi, vi]], 'top': top}
                runner.journal(case)
                r = setstate_use(setstate_apply(case))
                n += 1
                if r[0] == 'ok':
                    acc += 1
                    if not r[1]:
                        bad.append([case, r[2]])
    return {'status': 'setstate_sweep', 'calls': n, 'accepted': acc, 'bad': bad[:5]}


# ------------------------------------------------------------------ generated API programs
def make_pool():
    import optree
    from collections import OrderedDict, defaultdict, deque
    from vlib import universe as U
    t1 = {'b': (1, [2, 3]), 'a': U.CG(4, 5), 'n': None, 'd': deque([1, 2], maxlen=3)}
    t2 = [OrderedDict(z=1, y=(2,)), defaultdict(list, q=[1]), U.NT2(1, (2, 3)), os.terminal_size((1, 2))]
    s1, s2 = optree.tree_structure(t1), optree.tree_structure(t2, none_is_leaf=True)
    pool = [t1, t2, s1, s2, optree.treespec_leaf(), optree.treespec_none(), None, 0, -1, 3, 2 ** 70, 1.5, 'vns', '', b'x', (), [], {},
            [1, 2, 3], (1, (2, 3)), {'a': 1}, lambda *a, **k: a[0] if a else None, lambda x: True, lambda *a: (a, a),
            s1.accessors(), s1.accessors()[0] if s1.accessors() else None, optree.tree_iter(t1), iter([1, 2]), object(), U.Leaf(1),
            U.CG(1, 2), U.CN(1, 2), U.FN([1, 2], None), U.Bad('len1'), U.Bad('children_int'), type, list, dict, U.CG, True, False,
            optree.PyTreeKind.LIST, optree.SequenceEntry, s1.paths(), s1.entries(), s1.children(), range(3), {1, 2}, frozenset({1}),
            float('nan'), [None, None], {'k': None}]
    return pool


def api_functions():
    import optree
    names = [n for n in optree.__all__ if callable(getattr(optree, n, None)) and isinstance(getattr(optree, n), type(optree.tree_flatten))]
    skip = {'register_pytree_node', 'register_pytree_node_class', 'unregister_pytree_node', 'dict_insertion_ordered'}
    fns = [('optree.' + n, getattr(optree, n)) for n in sorted(names) if n not in skip]
    for m in ('unflatten', 'flatten_up_to', 'broadcast_to_common_suffix', 'transform', 'compose', 'traverse', 'walk', 'paths',
              'accessors', 'entries', 'entry', 'children', 'child', 'one_level', 'is_leaf', 'is_one_level', 'is_prefix',
              'is_suffix', '__eq__', '__lt__', '__le__', '__hash__', '__repr__', '__len__', '__getstate__', '__setstate__'):
        fns.append(('PyTreeSpec.' + m, getattr(optree.PyTreeSpec, m)))
    for n in ('flatten', 'flatten_with_path', 'is_leaf', 'all_leaves', 'make_leaf', 'make_none', 'make_from_collection',
              'is_namedtuple', 'is_namedtuple_class', 'namedtuple_fields', 'is_structseq', 'is_structseq_class', 'structseq_fields',
              'PyTreeIter'):
        fns.append(('_C.' + n, getattr(optree._C, n)))
    return fns


_POOL = None
_FNS = None


def cell_program(cell):
    global _POOL, _FNS
    import optree
    from vlib import universe as U
    U.TICK.reset()
    if _FNS is None:
        _FNS = api_functions()
    pool = make_pool()
    base = len(pool)
    n_ok = n_exc = internal = 0
    for fi, args, kwsel in cell['steps']:
        name, fn = _FNS[fi % len(_FNS)]
        a = [pool[i % len(pool)] for i in args]
        kw = {}
        if kwsel & 1:
            kw['none_is_leaf'] = bool(kwsel & 2)
        if kwsel & 4:
            kw['namespace'] = 'vns' if kwsel & 8 else ''
        if kwsel & 16:
            kw['is_leaf'] = pool[22]
        try:
            r = fn(*a, **kw)
            n_ok += 1
            touch(r)
            if len(pool) < base + 40:
                pool.append(r)
                if isinstance(r, (list, tuple)) and r and len(pool) < base + 40:
                    pool.append(r[0])
        except RecursionError:
            n_exc += 1
        except BaseException as e:  # noqa: BLE001
            n_exc += 1
            if type(e).__name__ in ('InternalError', 'SystemError'):
                internal += 1
    return {'status': 'program', 'ok': n_ok, 'exc': n_exc, 'internal_errors': internal}


# =============================================================== parent side
class Worker:
    def __init__(self, tag):
        self.journal = str(runner.VERIF / '.build' / f'c16-journal-{tag}-{os.getpid()}.json')
        self.errlog = self.journal + '.stderr'
        self.start()

    def start(self):
        env = dict(os.environ)
        env['VERIF_JOURNAL'] = self.journal
        self.err = open(self.errlog, 'w')
        self.p = subprocess.Popen([sys.executable, '-m', 'vlib.props.c16', '--worker'], stdin=subprocess.PIPE,
                                  stdout=subprocess.PIPE, stderr=self.err, text=True, bufsize=1, env=env)

    def ask(self, cell):
        """-> (result dict | None, crash info | None)"""
        try:
            self.p.stdin.write(json.dumps(cell) + '\n')
            self.p.stdin.flush()
            line = self.p.stdout.readline()
        except (BrokenPipeError, OSError):
            line = ''
        if line:
            return json.loads(line), None
        rc = self.p.wait()
        self.err.close()
        try:
            tail = open(self.errlog).read()[-2500:]
        except OSError:
            tail = ''
        try:
            j = json.loads(open(self.journal).read())
        except Exception:  # noqa: BLE001
            j = None
        self.start()
        return None, {'exit': rc, 'journal': j, 'stderr': tail}

    def close(self):
        try:
            self.p.stdin.close()
            self.p.wait(timeout=20)
        except Exception:  # noqa: BLE001
            self.p.kill()
        for f in (self.journal, self.errlog):
            try:
                os.unlink(f)
            except OSError:
                pass


class C16(runner.Prop):
    ID = 'C16'
    LEVEL = 'fault_enumeration'
    BUILD = 'asan'
    RULE = ('cells executed in an ASan+UBSan worker: (depth) 9 node kinds x depths {limit-1, limit, limit+1, limit+2} x 3 traversals '
            '+ ~28 operations on at-limit trees; (selfref) 8 self-referential / endless inputs x 8 operations; (mutation) 11 '
            'traversals x 8 containers x 7 callback positions x 7 mutation kinds x every callback index k (K measured by a dry run); '
            '(args) ~2000 out-of-range / wrong-type argument calls incl. malformed __setstate__ states; (setstate) every single-field edit of every node of '
            'four pickle states covering all node kinds + Hypothesis-generated multi-edit states (field edits, node deletion / duplication / swap / truncation, '
            'flag edits): the state is rejected or yields a treespec whose inspections are mutually consistent and round-trip; (program) Hypothesis-generated '
            'API-confusion programs (<= 25 calls over a mixed object pool, results fed back); violation = worker death (signal / '
            'sanitizer report) or a verdict mismatch between traversals at a depth; non-trivial = mutation cell whose callback fired, '
            'or a program with >= 5 calls; distinct = sha1(cell)')
    ASSUMPTIONS = [
        'a Python exception (including InternalError) or a normal result are both acceptable outcomes for hostile inputs; only crashes / sanitizer reports / inconsistent verdicts are violations',
        'ASan sees Python objects because the worker runs with PYTHONMALLOC=malloc; container elements are heap objects referenced only by the container, so a stale borrowed pointer is a use-after-free the sanitizer reports',
        'leak detection is off (detect_leaks=0); the interpreter itself is not instrumented',
    ]
    tree_keys = ()
    _w = None

    def budget(self, tier):
        return 160 if tier == 'quick' else 4000

    def strategy(self, tier):
        step = st.tuples(st.integers(0, 200), st.lists(st.integers(0, 80), min_size=0, max_size=3), st.integers(0, 31)).map(list)
        program = st.fixed_dictionaries({'kind': st.just('program'), 'steps': st.lists(step, min_size=1, max_size=25)})
        edit = st.tuples(st.sampled_from(['set', 'set', 'set', 'set', 'del', 'dup', 'swap', 'trunc', 'subtree']), st.integers(0, 30),
                         st.integers(0, 7), st.integers(0, 30)).map(list)
        setstate = st.fixed_dictionaries({'kind': st.just('setstate'), 'base': st.integers(0, 3),
                                          'edits': st.lists(edit, min_size=1, max_size=4), 'top': st.sampled_from([0, 0, 0, 0, 1, 2, 3, 4, 5, 6])})
        return st.integers(0, 1).flatmap(lambda k: program if k == 0 else setstate)

    def shrink_extra(self, case):
        if case.get('kind') == 'program':
            for i in range(len(case['steps'])):
                c = dict(case)
                c['steps'] = case['steps'][:i] + case['steps'][i + 1:]
                if c['steps']:
                    yield c
        if case.get('kind') == 'setstate':
            for i in range(len(case['edits'])):
                c = dict(case)
                c['edits'] = case['edits'][:i] + case['edits'][i + 1:]
                if c['edits']:
                    yield c
            if case.get('top'):
                yield dict(case, top=0)

    def worker(self, ctx):
        if C16._w is None:
            C16._w = Worker(f's{ctx.shard}')
        return C16._w

    def fuzz_case(self, case, ctx):
        """coverage-guided campaign (atheris / libFuzzer) on the sancov build; oracle inside the target"""
        import base64
        import shutil
        import tempfile
        pkg, rt = os.environ.get('VERIF_PKG_FUZZ'), os.environ.get('VERIF_FUZZ_RT')
        if not pkg or not os.path.exists(rt or ''):
            ctx.note('fuzz build not available: coverage-guided phase skipped')
            return
        env = {k: v for k, v in os.environ.items() if k not in ('LD_PRELOAD', 'ASAN_OPTIONS', 'UBSAN_OPTIONS', 'PYTHONMALLOC')}
        env['PYTHONPATH'] = os.pathsep.join([pkg, str(runner.VERIF), str(runner.VERIF / '.deps')])
        env['LD_PRELOAD'] = rt
        pre = subprocess.run([sys.executable, '-c', 'import atheris, vlib.fuzz_c16'], env=env, cwd=str(runner.VERIF), capture_output=True, text=True)
        if pre.returncode != 0:
            # the fuzzing front end itself cannot start (atheris not installed in .deps, ...): nothing was explored,
            # which is a limit of this run, never a finding
            ctx.note('coverage-guided phase skipped: ' + (pre.stderr.strip().splitlines() or ['cannot import atheris'])[-1][:200])
            return
        work = tempfile.mkdtemp(prefix='c16-fuzz-', dir=str(runner.VERIF / '.build'))
        try:
            corpus = os.path.join(work, 'corpus')
            os.makedirs(corpus)
            if 'input_b64' in case:          # replay of a saved crashing input
                f = os.path.join(work, 'input')
                open(f, 'wb').write(base64.b64decode(case['input_b64']))
                cmd = [sys.executable, '-m', 'vlib.fuzz_c16', f]
            else:
                if case.get('corpus') == 'seeded':
                    for i in range(64):
                        open(os.path.join(corpus, f's{i}'), 'wb').write(bytes((i * 37 + j * 11) % 256 for j in range(8 + i % 24)))
                cmd = [sys.executable, '-m', 'vlib.fuzz_c16', corpus, f'-runs={case["runs"]}', f'-seed={case["seed"]}',
                       '-max_len=384', f'-artifact_prefix={work}/crash-', '-print_final_stats=1']
            r = subprocess.run(cmd, env=env, cwd=str(runner.VERIF), capture_output=True, text=True)
            stats = {ln.split(':')[0].replace('stat::', '').strip(): ln.split(':')[-1].strip()
                     for ln in r.stderr.splitlines() if ln.startswith('stat::')}
            cov = [ln for ln in r.stderr.splitlines() if ' cov: ' in ln]
            if ctx.recording and 'input_b64' not in case:
                ctx.extra_cov['fuzz_executions'] = ctx.extra_cov.get('fuzz_executions', 0) + int(stats.get('number_of_executed_units', 0) or 0)
                ctx.extra_cov['fuzz_corpus_units_max'] = int(stats.get('new_units_added', 0) or 0)
                if cov:
                    ctx.extra_cov['fuzz_last_status'] = cov[-1][:160]
            ctx.nontrivial(True)
            ctx.label('fuzz_campaign')
            if r.returncode != 0:
                arts = [f for f in os.listdir(work) if f.startswith('crash-')]
                if not arts and 'input_b64' not in case and not any(
                        m in r.stderr for m in ('ERROR: libFuzzer', 'Sanitizer', 'AssertionError', 'deadly signal', 'Fatal Python error')):
                    raise RuntimeError(f'fuzz front end failed without a finding (exit {r.returncode}): {r.stderr.strip()[-400:]}')
                b64 = base64.b64encode(open(os.path.join(work, arts[0]), 'rb').read()).decode() if arts else ''
                tail = ' | '.join(ln.strip() for ln in r.stderr.splitlines()[-30:] if 'Error' in ln or 'ERROR' in ln or 'assert' in ln or 'Fatal' in ln)[:400]
                ctx.fail('fuzz/crash_or_assertion', f'exit {r.returncode}; input_b64={b64}; {tail}')
        finally:
            shutil.rmtree(work, ignore_errors=True)

    def check_case(self, case, ctx):
        if case['kind'] == 'fuzz':
            return self.fuzz_case(case, ctx)
        res, crash = self.worker(ctx).ask(case)
        kind = case['kind']
        if crash is not None:
            sig = crash['exit']
            what = 'sanitizer' if 'Sanitizer' in crash['stderr'] or 'runtime error' in crash['stderr'] else f'exit {sig}'
            key = {'mutation': lambda c: f"mutation/{c['traversal']}/{c['container']}",
                   'depth': lambda c: f"depth/{c['container']}", 'selfref': lambda c: f"selfref/{c['container']}",
                   'args': lambda c: 'args', 'program': lambda c: 'program', 'count': lambda c: 'count',
                   'malformed': lambda c: f"malformed/{c['how']}",
                   'deepspec': lambda c: f"deepspec/{c['method']}", 'pairs': lambda c: f"pairs/{c['a']}",
                   'setstate': lambda c: 'setstate', 'setstate_sweep': lambda c: 'setstate'}[kind](case)
            summary = _first_lines(crash['stderr'])
            ctx.fail(f'crash/{key}', f'worker died ({what}) on {json.dumps(crash["journal"] or case)[:300]} :: {summary}')
            return
        st_ = res['status']
        if st_ == 'harness':
            raise RuntimeError(f'worker harness error: {res}')
        if kind == 'mutation':
            ctx.nontrivial(st_ in ('ok', 'exc', 'exc_after'))
            ctx.label(f'mutation:{st_}')
            if st_ == 'exc_after':
                ctx.fail(f'mutation/{case["traversal"]}/broken_afterwards', res['msg'])
        elif kind == 'depth':
            ctx.nontrivial(True)
            v = res['verdicts']
            if len(set(v.values())) > 1:
                ctx.fail('depth/parity', f'{case}: {v}')
            elif v['flatten'] != res['expect']:
                ctx.fail('depth/limit', f'{case}: {v} expected {res["expect"]}')
            for name, o in (res.get('at_limit_failures') or {}).items():
                ctx.fail(f'depth/at_limit/{name}', f'{case["container"]} depth {case["depth"]}: {o}')
            ctx.label('depth_cell')
        elif kind == 'malformed':
            ctx.nontrivial(True)
            ctx.label('malformed_cell')
            v = res['verdicts']
            if not res['consistent']:
                for name in ('flatten', 'with_path', 'iter', 'accessors', 'map_with_path'):
                    if v.get(name) is None:
                        ctx.fail('malformed/accepted', f'{case}: {name} accepted children/entries mismatch')
        elif kind == 'pairs':
            ctx.nontrivial(True)
            ctx.label('pairs_cell')
            ctx.extra_cov['pair_calls'] = ctx.extra_cov.get('pair_calls', 0) + res['calls']
            ctx.extra_cov['pair_calls_exc'] = ctx.extra_cov.get('pair_calls_exc', 0) + res['exc']
            if res['internal_errors']:
                ctx.fail(f'pairs/{case["a"]}/internal_error', f'{res["internal_errors"]} calls raised InternalError / SystemError')
        elif kind == 'deepspec':
            ctx.nontrivial(True)
            ctx.label('deepspec_cell')
            ctx.label(f'deepspec:{case["method"]}:{res["verdict"] or "ok"}')
            if res['verdict'] in ('InternalError', 'SystemError'):
                ctx.fail(f'deepspec/{case["method"]}/internal_error', f'{case}: {res.get("msg")}')
            elif res['verdict'] is None and not res['consistent']:
                ctx.fail(f'deepspec/{case["method"]}/inconsistent', f'{case}: {res.get("msg")}')
        elif kind == 'selfref':
            ctx.nontrivial(True)
            v = res['verdicts']
            ctx.label('selfref_cell')
            for name in ('flatten', 'with_path', 'iter', 'map', 'structure'):
                if v.get(name) != 'RecursionError':
                    ctx.fail('selfref/not_RecursionError', f'{case["container"]}: {name} -> {v.get(name)}')
        elif kind == 'args':
            ctx.nontrivial(True)
            ctx.label('args_cell')
            ctx.extra_cov['arg_calls'] = ctx.extra_cov.get('arg_calls', 0) + res['calls']
            ctx.extra_cov['arg_calls_internal_error'] = ctx.extra_cov.get('arg_calls_internal_error', 0) + res['internal_errors']
        elif kind == 'setstate':
            ctx.nontrivial(True)
            ctx.label(f'setstate:{res["verdict"]}')
            ctx.extra_cov['setstate_calls'] = ctx.extra_cov.get('setstate_calls', 0) + 1
            ctx.extra_cov['setstate_accepted'] = ctx.extra_cov.get('setstate_accepted', 0) + (res['verdict'] == 'ok')
            if res['verdict'] == 'ok' and not res['consistent']:
                ctx.fail('setstate/accepted_inconsistent', f'{case}: {res["msg"]} :: {res["state"]}')
        elif kind == 'setstate_sweep':
            ctx.nontrivial(True)
            ctx.label('setstate_sweep_cell')
            ctx.extra_cov['setstate_calls'] = ctx.extra_cov.get('setstate_calls', 0) + res['calls']
            ctx.extra_cov['setstate_accepted'] = ctx.extra_cov.get('setstate_accepted', 0) + res['accepted']
            for c, msg in res['bad']:
                ctx.fail('setstate/accepted_inconsistent', f'{c}: {msg}')
        elif kind == 'program':
            ctx.nontrivial(len(case['steps']) >= 5)
            ctx.label('program')
            ctx.extra_cov['program_calls_ok'] = ctx.extra_cov.get('program_calls_ok', 0) + res['ok']
            ctx.extra_cov['program_calls_exc'] = ctx.extra_cov.get('program_calls_exc', 0) + res['exc']
            ctx.extra_cov['program_internal_errors'] = ctx.extra_cov.get('program_internal_errors', 0) + res['internal_errors']

    def extra(self, ctx):
        import optree
        limit = optree.MAX_RECURSION_DEPTH
        cells = []
        for k in DEPTH_KINDS:
            for d in (limit - 1, limit, limit + 1, limit + 2):
                cells.append({'kind': 'depth', 'container': k, 'depth': d, 'ops': d == limit})
                for pred in ('int_leaf', 'holds_one_int'):
                    cells.append({'kind': 'depth', 'container': k, 'depth': d, 'ops': False, 'pred': pred})
        for k in ('list', 'dict', 'od', 'dd', 'deque', 'custom', 'mutual', 'endless_flatten'):
            cells.append({'kind': 'selfref', 'container': k})
        cells.append({'kind': 'args'})
        for ka in PAIR_KINDS:
            cells.append({'kind': 'pairs', 'a': ka})
        for b, (nodes, _nil, _ns) in enumerate(setstate_bases()):
            for i in range(len(nodes)):
                cells.append({'kind': 'setstate_sweep', 'base': b, 'node': i})
        deep_depths = (limit + 1, 2 * limit, 8 * limit, 64 * limit) if ctx.tier == 'thorough' else (limit + 1, 8 * limit, 64 * limit)
        for m in DEEPSPEC_METHODS:
            for i, d in enumerate(deep_depths):
                kinds = DEPTH_KINDS if (ctx.tier == 'thorough' or d == 8 * limit) else (DEPTH_KINDS[(i + len(m)) % len(DEPTH_KINDS)],)
                for k in kinds:
                    cells.append({'kind': 'deepspec', 'container': k, 'depth': d, 'method': m})
        for how in ('tuple', 'list_entries', 'iter_children', 'gen_entries', 'nested'):
            for nch, nent in ((0, 0), (1, 0), (0, 1), (2, 1), (1, 2), (3, 1), (5, 4), (4, 5), (2, 2), (40, 1), (1, 40), (300, 299)):
                cells.append({'kind': 'malformed', 'how': how, 'nch': nch, 'nent': nent})
        muts = MUTATIONS if ctx.tier == 'thorough' else ('del_first', 'clear', 'shrink_half', 'replace', 'grow_many')
        for tr in TRAVERSALS:
            for co in CONTAINERS:
                for po in POSITIONS:
                    cells.append({'kind': 'count', 'traversal': tr, 'container': co, 'position': po, 'mutation': 'clear'})
        mine = [c for i, c in enumerate(cells) if i % ctx.nshards == ctx.shard]
        for c in mine:
            if c['kind'] != 'count':
                ctx.run_case(c)
                continue
            res, crash = self.worker(ctx).ask(c)
            if crash is not None or res.get('status') != 'count':
                ctx.run_case(dict(c, kind='mutation', k=1))
                continue
            K = res['K']
            ks = range(1, K + 1) if ctx.tier == 'thorough' else sorted({1, 2, (K + 1) // 2, K} & set(range(1, K + 1)))
            for k in ks:
                for how in muts:
                    ctx.run_case({'kind': 'mutation', 'traversal': c['traversal'], 'container': c['container'],
                                  'position': c['position'], 'mutation': how, 'k': k})
        if ctx.tier == 'thorough':
            runs = 300000
            corpus = 'empty' if ctx.shard % 2 == 0 else 'seeded'
            ctx.run_case({'kind': 'fuzz', 'runs': runs, 'seed': ctx.seed * 1000 + ctx.shard + 1, 'corpus': corpus})
        if C16._w is not None:
            C16._w.close()
            C16._w = None


def _first_lines(stderr):
    keep = [ln.strip() for ln in stderr.splitlines() if 'ERROR' in ln or 'runtime error' in ln or 'SUMMARY' in ln or ' in optree::' in ln or 'Fatal Python error' in ln]
    return ' | '.join(keep[:6])[:600]


PROP = C16()
if __name__ == '__main__':
    if '--worker' in sys.argv:
        worker_main()
    else:
        runner.main(PROP)
