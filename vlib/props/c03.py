"""C03  all traversal entry points agree (all-pairs oracle, reductions vs Python folds, error parity)."""
from __future__ import annotations

import functools
import operator

import optree
from hypothesis import strategies as st

from vlib import compare, gen, model, runner
from vlib import universe as U

FULL = {
    'tree_flatten': lambda t, kw: optree.tree_flatten(t, **kw),
    'tree_flatten_with_path': lambda t, kw: optree.tree_flatten_with_path(t, **kw),
    'tree_flatten_with_accessor': lambda t, kw: optree.tree_flatten_with_accessor(t, **kw),
    'tree_leaves': lambda t, kw: optree.tree_leaves(t, **kw),
    'tree_iter': lambda t, kw: list(optree.tree_iter(t, **kw)),
    'tree_structure': lambda t, kw: optree.tree_structure(t, **kw),
    'tree_paths': lambda t, kw: optree.tree_paths(t, **kw),
    'tree_accessors': lambda t, kw: optree.tree_accessors(t, **kw),
}


def deep(kind, depth, leaf):
    """a chain of `depth` nested one-child containers of a kind around leaf"""
    from collections import OrderedDict, defaultdict, deque
    x = leaf
    for _ in range(depth):
        if kind == 'list':
            x = [x]
        elif kind == 'tuple':
            x = (x,)
        elif kind == 'dict':
            x = {'k': x}
        elif kind == 'od':
            x = OrderedDict(k=x)
        elif kind == 'dd':
            x = defaultdict(int, k=x)
        elif kind == 'deque':
            x = deque([x])
        elif kind == 'nt':
            x = U.NT1(x)
        elif kind == 'cg':
            x = U.CG(x)
        elif kind == 'cn':
            x = U.CN(x, 0)
    return x


DEEP_KINDS = ('list', 'tuple', 'dict', 'od', 'dd', 'deque', 'nt', 'cg', 'cn')


class C03(runner.Prop):
    ID = 'C03'
    LEVEL = 'exploration'
    RULE = ('generated trees x cfg through 8 entry points (all-pairs), numeric-leaf trees for the reductions, '
            'single injected malformed custom node per tree and over-deep chains (depth 1000/1001/1002 x 9 kinds) '
            'for error parity; non-trivial = >=2 leaves and >=1 dict/custom node, or an error-parity case; '
            'distinct = sha1(case)')
    ASSUMPTIONS = [
        'tree_all / tree_any short-circuit by design and are compared by value only (excluded from error parity)',
        'the lazy iterator is exhausted before comparing',
        'error parity is asserted on the exception *type* (as the property states), for a single malformation per tree',
    ]
    tree_keys = ('t',)

    def budget(self, tier):
        return 700 if tier == 'quick' else 8000

    def strategy(self, tier):
        ml = 12 if tier == 'quick' else 22
        general = st.fixed_dictionaries({'kind': st.just('agree'), 't': gen.tree_descs(ml), 'cfg': gen.configs()})
        def numeric_of(ints):
            return st.fixed_dictionaries({
                'kind': st.just('reduce'),
                't': gen.tree_descs(ml, leaf=ints.map(lambda n: ['i', n]),
                                    kinds=('tuple', 'list', 'dict', 'od', 'dd', 'deque', 'nt', 'cg', 'cn', 'cs', 'ci', 'dc')),
                'cfg': gen.configs(predicates=['none', 'never', 'tuple2', 'is_cg', 'is_list']),
                'initial': st.integers(-3, 3), 'use_initial': st.booleans()})
        # all / any only tell leaf sets apart when the other leaves are all truthy / all falsy: biased strata
        numeric = st.one_of(numeric_of(st.integers(-5, 9)), numeric_of(st.integers(-5, 9)),
                            numeric_of(st.sampled_from([0, 0, 0, 0, 0, 0, 0, 3])), numeric_of(st.integers(1, 9)))
        general_pred = st.fixed_dictionaries({'kind': st.just('agree'), 't': gen.tree_descs(ml),
                                              'cfg': gen.configs().map(lambda c: c)})
        bad = st.fixed_dictionaries({
            'kind': st.just('error'),
            't': gen.tree_descs(ml, leaf=st.one_of(
                gen.leaf_descs(), st.sampled_from(U.Bad.KINDS).map(lambda k: ['bad', k]))),
            'cfg': gen.configs(predicates=['none', 'never', 'tuple2', 'leaf_even'])})
        wrap_kinds = st.lists(st.sampled_from(['list', 'tuple', 'dict', 'od', 'dd', 'deque', 'nt', 'cg', 'ci']), min_size=1, max_size=3)
        deep = st.fixed_dictionaries({
            'kind': st.just('agree'),
            't': st.tuples(wrap_kinds, st.sampled_from([50, 500, 990]), gen.tree_descs(5, max_depth=3)).map(
                lambda t: ['wrap', ','.join(t[0]), t[1], t[2]]),
            'cfg': gen.configs(predicates=['none', 'never', 'leaf_even'])})
        # explicit weights (one_of neither keeps repetitions as weights nor nested alternatives as one)
        # leaves that are lists (one-element lists kept whole by the predicate): sums with a list start value
        list_leaves = st.fixed_dictionaries({
            'kind': st.just('reduce'),
            't': gen.tree_descs(ml, leaf=st.integers(-5, 9).map(lambda n: ['list', [['i', n]]]),
                                kinds=('tuple', 'dict', 'od', 'dd', 'deque', 'nt', 'cg')),
            'cfg': gen.configs(predicates=['is_list']).map(lambda c: dict(c, pred='is_list')),
            'initial': st.integers(-3, 3), 'use_initial': st.booleans()})
        table = [general] * 9 + [list_leaves] + [numeric_of(st.integers(-5, 9))] * 2 + [numeric_of(st.sampled_from([0, 0, 0, 0, 0, 0, 0, 3])),
                                                                         numeric_of(st.integers(1, 9))] + [bad] * 3 + [deep] * 3

        @st.composite
        def pick(draw):
            return draw(table[draw(st.integers(0, len(table) - 1))])
        return pick()

    # ------------------------------------------------------------------
    def check_case(self, case, ctx):
        kind = case['kind']
        cfg = gen.sound_cfg(case)
        kw = gen.kw(cfg)
        if kind == 'deep':
            return self.check_deep(case, kw, ctx)
        tree = gen.build(case['t'])
        with gen.ModeCtx(cfg):
            if kind == 'agree':
                self.agree(case, tree, cfg, kw, ctx)
            elif kind == 'reduce':
                self.reductions(case, tree, cfg, kw, ctx)
            elif kind == 'error':
                self.error_parity(case, tree, cfg, kw, ctx)

    def agree(self, case, tree, cfg, kw, ctx):
        leaves, spec = optree.tree_flatten(tree, **kw)
        paths2, leaves2, spec2 = optree.tree_flatten_with_path(tree, **kw)
        acc3, leaves3, spec3 = optree.tree_flatten_with_accessor(tree, **kw)
        leaves4 = optree.tree_leaves(tree, **kw)
        leaves5 = list(optree.tree_iter(tree, **kw))
        spec6 = optree.tree_structure(tree, **kw)
        paths7 = optree.tree_paths(tree, **kw)
        acc8 = optree.tree_accessors(tree, **kw)
        n = spec.num_leaves
        ctx.nontrivial(n >= 2 and gen.contains_tag(case['t'], ('dict', 'od', 'dd', 'cg', 'cn', 'cs', 'cm', 'cu', 'ci', 'dc', 'partial')))
        if case['t'][0] == 'wrap':
            ctx.label('deep_nesting')
        if gen.insertion_mode(cfg):
            ctx.label('insertion_mode')
        if gen.insertion_mode(cfg) and gen.contains_tag(case['t'], ('dd',)) and gen.contains_tag(case['t'], ('cg', 'cn', 'cs', 'cm', 'cu', 'ci')):
            ctx.label('defaultdict_insertion_mode_with_custom')
        for name, l in (('with_path', leaves2), ('with_accessor', leaves3), ('tree_leaves', leaves4), ('tree_iter', leaves5)):
            if not compare.same_leaves(leaves, l):
                ctx.fail(f'leaves/{name}', f'{leaves!r} vs {l!r}')
        for name, s in (('with_path', spec2), ('with_accessor', spec3), ('tree_structure', spec6)):
            if not (s == spec) or (s != spec):
                ctx.fail(f'spec_eq/{name}', f'{spec} vs {s}')
            elif hash(s) != hash(spec):
                ctx.fail(f'spec_hash/{name}', f'{spec} vs {s}')
            if repr(s) != repr(spec):
                ctx.fail(f'spec_repr/{name}', f'{spec!r} vs {s!r}')
            if s.namespace != spec.namespace or s.none_is_leaf != spec.none_is_leaf:
                ctx.fail(f'spec_attrs/{name}', f'{s.namespace!r} vs {spec.namespace!r}')
        # equal treespecs may still differ in what == does not look at (recorded dict insertion order): every entry
        # point's treespec must rebuild the same tree, compared with key order
        toks = [U.Leaf(1001 + 2 * i) for i in range(n)]
        try:
            base = spec.unflatten(toks)
        except Exception as e:  # noqa: BLE001
            base = None
            if 'partial' not in repr(case['t']):
                ctx.fail('spec_unflatten/flatten_raises', f'{type(e).__name__}: {e}')
        if base is not None:
            for name, s in (('with_path', spec2), ('with_accessor', spec3), ('tree_structure', spec6)):
                try:
                    d = model.same_tree(base, s.unflatten(toks))
                except Exception as e:  # noqa: BLE001
                    d = f'raises {type(e).__name__}: {e}'
                if d:
                    ctx.fail(f'spec_unflatten/{name}', d)
        sp = spec.paths()
        for name, p in (('with_path', paths2), ('tree_paths', paths7), ('spec2.paths', spec2.paths())):
            if not compare.paths_same(p, sp):
                ctx.fail(f'paths/{name}', f'{p!r} vs spec.paths() {sp!r}')
        sa = spec.accessors()
        for name, a in (('with_accessor', acc3), ('tree_accessors', acc8), ('spec2.accessors', spec2.accessors())):
            if len(a) != len(sa) or any(x != y or hash(x) != hash(y) for x, y in zip(a, sa)):
                ctx.fail(f'accessors/{name}', f'{a!r} vs {sa!r}')
        if not compare.paths_same([a.path for a in sa], sp):
            ctx.fail('accessors/path_vs_paths', f'{[a.path for a in sa]!r} vs {sp!r}')
        for name, cnt in (('leaves', len(leaves)), ('paths', len(sp)), ('accessors', len(sa)), ('len', len(spec))):
            if cnt != n:
                ctx.fail(f'count/{name}', f'{cnt} vs num_leaves {n}')
        # tree_is_leaf(x)  <=>  flatten(x) == ([x], leaf spec)
        m = model.Model.from_cfg(cfg)
        subs = [tree] + list(leaves[:4])
        node = m.one_level(tree)
        if node is not None:
            subs += node.children[:4]
        for x in subs:
            l, s = optree.tree_flatten(x, **kw)
            is_leaf_by_flatten = len(l) == 1 and l[0] is x and s.is_leaf() and s.num_nodes == 1
            if bool(optree.tree_is_leaf(x, **kw)) != is_leaf_by_flatten:
                ctx.fail('tree_is_leaf', f'{x!r}: tree_is_leaf={optree.tree_is_leaf(x, **kw)} flatten={l!r},{s}')
        want = all(optree.tree_is_leaf(x, **kw) for x in subs)
        if bool(optree.all_leaves(subs, **kw)) != want or bool(optree.all_leaves(iter(subs), **kw)) != want:
            ctx.fail('all_leaves', f'{subs!r}')
        if not optree.all_leaves(leaves, **kw) and cfg['pred'] in ('none', 'never'):
            ctx.fail('all_leaves/leaves', f'{leaves!r}')
        # all_leaves judges every element on its own: ordered pairs / triples of sub-objects of the tree (same-typed
        # ones next to each other in particular - a predicate may accept one and reject the next)
        objs = [n.obj for n in m.structure(tree).walk()][:10]
        for x in list(objs)[:6]:            # same-typed neighbours a value-dependent predicate tells apart
            if type(x) is tuple:
                objs += [x + (0,), x[:1], (5, 6)]
            elif type(x) is list:
                objs += [x + [0], x[:1], [7]]
            elif type(x) is dict:
                objs += [{**x, 'a': 0}, {k: v for k, v in x.items() if k != 'a'}]
        checked = 0
        for i, x in enumerate(objs):
            for j, y in enumerate(objs):
                if i == j or checked >= 60 or not (type(x) is type(y) or (i + j) % 5 == 0):
                    continue
                checked += 1
                lx, ly = bool(optree.tree_is_leaf(x, **kw)), bool(optree.tree_is_leaf(y, **kw))
                for seq in ([x, y], [x, x, y], (y, x, y)):
                    want_seq = lx and ly
                    if bool(optree.all_leaves(seq, **kw)) != want_seq:
                        ctx.fail('all_leaves/sequence', f'{seq!r}: all_leaves={optree.all_leaves(seq, **kw)} but leaf-ness {lx}, {ly}')
                        break
                if lx != ly and type(x) is type(y):
                    ctx.label('all_leaves:same_type_mixed_leafness')

    def reductions(self, case, tree, cfg, kw, ctx):
        leaves = optree.tree_leaves(tree, **kw)
        nums = all(isinstance(x, int) for x in leaves)
        ctx.nontrivial(len(leaves) >= 2)
        ctx.label('reduce_case')
        if not nums:
            # the predicate made a container a leaf, or None is a leaf: the folds are still compared with the same
            # Python fold over tree_leaves - both raise TypeError (or both answer); a fold that forgot is_leaf /
            # none_is_leaf sees other leaves and answers differently
            ctx.label('reduce_nonnumeric_leaves')
        init = case['initial']

        def same(name, f, g):
            try:
                a = ('ok', f())
            except Exception as e:  # noqa: BLE001
                a = ('exc', type(e))
            try:
                b = ('ok', g())
            except Exception as e:  # noqa: BLE001
                b = ('exc', type(e))
            if a != b:
                ctx.fail(f'reduce/{name}', f'{a!r} vs python fold {b!r} leaves={leaves!r}')

        sub = operator.sub
        if case['use_initial']:
            same('tree_reduce_init', lambda: optree.tree_reduce(sub, tree, init, **kw), lambda: functools.reduce(sub, leaves, init))
            same('tree_sum_start', lambda: optree.tree_sum(tree, init, **kw), lambda: sum(leaves, init))
            same('tree_max_default', lambda: optree.tree_max(tree, default=init, **kw), lambda: max(leaves, default=init))
            same('tree_min_default_key', lambda: optree.tree_min(tree, default=init, key=abs, **kw), lambda: min(leaves, default=init, key=abs))
        else:
            same('tree_reduce', lambda: optree.tree_reduce(sub, tree, **kw), lambda: functools.reduce(sub, leaves))
            same('tree_sum', lambda: optree.tree_sum(tree, **kw), lambda: sum(leaves))
            same('tree_max_key', lambda: optree.tree_max(tree, key=lambda v: -v, **kw), lambda: max(leaves, key=lambda v: -v))
            same('tree_min', lambda: optree.tree_min(tree, **kw), lambda: min(leaves))
        pair = lambda a, b: (a, b)  # noqa: E731   (total over any leaves)
        same('tree_reduce_pair', lambda: optree.tree_reduce(pair, tree, **kw), lambda: functools.reduce(pair, leaves))
        same('tree_reduce_pair_init', lambda: optree.tree_reduce(pair, tree, init, **kw), lambda: functools.reduce(pair, leaves, init))
        tkey = lambda v: (type(v).__name__, v if isinstance(v, int) else id(v))  # noqa: E731   (total order over any leaves)
        same('tree_max_default_key', lambda: optree.tree_max(tree, default=init, key=tkey, **kw), lambda: max(leaves, default=init, key=tkey))
        same('tree_min_key', lambda: optree.tree_min(tree, key=tkey, **kw), lambda: min(leaves, key=tkey))
        same('tree_max_key2', lambda: optree.tree_max(tree, key=tkey, **kw), lambda: max(leaves, key=tkey))
        same('tree_min_default_key2', lambda: optree.tree_min(tree, default=init, key=tkey, **kw), lambda: min(leaves, default=init, key=tkey))
        # a container as start value: the result is the Python fold's, and the caller's start object is left alone
        for start_of in (lambda: [init], lambda: (init,)):       # (str / bytes starts are joined by design, unlike sum())
            s0 = start_of()
            keep = start_of()
            same('tree_sum_container_start', lambda: optree.tree_sum(tree, s0, **kw), lambda: sum(leaves, start_of()))
            if s0 != keep:
                ctx.fail('reduce/tree_sum_start_mutated', f'start {keep!r} became {s0!r}; leaves={leaves!r}')
        same('tree_all', lambda: optree.tree_all(tree, **kw), lambda: all(leaves))
        same('tree_any', lambda: optree.tree_any(tree, **kw), lambda: any(leaves))
        if not leaves:
            ctx.label('reduce_empty_tree')

    def error_parity(self, case, tree, cfg, kw, ctx):
        res = {}
        for name, f in FULL.items():
            try:
                f(tree, kw)
                res[name] = None
            except Exception as e:  # noqa: BLE001
                res[name] = type(e).__name__
                if type(e).__name__ in ('InternalError', 'SystemError'):
                    ctx.fail('error/internal', f'{name}: {e}')
        kinds = set(res.values())
        nbad = sum(1 for _ in _bad_nodes(case['t']))
        ctx.label(f'error_case_nbad={min(nbad, 2)}')
        if len(kinds) > 1 and nbad <= 1:
            ctx.fail('error/parity', f'{res!r}')
        if kinds != {None}:
            ctx.nontrivial(True)
            ctx.label('error_raised')

    def check_deep(self, case, kw, ctx):
        k, depth = case['container'], case['depth']
        tree = deep(k, depth, 1)
        res = {}
        for name, f in FULL.items():
            try:
                f(tree, kw)
                res[name] = None
            except Exception as e:  # noqa: BLE001
                res[name] = type(e).__name__
        ctx.nontrivial(True)
        ctx.label('deep_case')
        if len(set(res.values())) > 1:
            ctx.fail('deep/parity', f'{k} depth={depth}: {res!r}')
        if res.get('tree_flatten') is None:
            # what the traversals accept, the treespec's own path walkers recompute (same paths, no RecursionError)
            try:
                spec = optree.tree_structure(tree, **kw)
                tp = optree.tree_paths(tree, **kw)
                if not compare.paths_same(spec.paths(), tp) or not compare.paths_same([a.path for a in spec.accessors()], tp) \
                        or not compare.paths_same(optree.treespec_paths(spec), tp):
                    ctx.fail('deep/spec_paths', f'{k} depth={depth}')
            except Exception as e:  # noqa: BLE001
                ctx.fail('deep/spec_paths_raises', f'{k} depth={depth}: {type(e).__name__}: {e}')
        limit = optree.MAX_RECURSION_DEPTH
        # the leaf sits at depth `depth`; a predicate stopping at the innermost container ends one level earlier
        stops_early = case['cfg']['pred'] == 'holds_one_int' and depth >= 1 and gen.PREDICATES['holds_one_int'](deep(k, 1, 1))
        deepest = depth - 1 if stops_early else depth
        expect = 'RecursionError' if deepest > limit else None
        got = res['tree_flatten']
        if got != expect:
            ctx.fail('deep/limit', f'{k} depth={depth}: flatten -> {got}, expected {expect} (limit {limit})')

    def extra(self, ctx):
        if ctx.shard != 0:
            return
        limit = optree.MAX_RECURSION_DEPTH
        for k in DEEP_KINDS:
            for depth in (limit - 1, limit, limit + 1, limit + 2):
                for ns in ('', U.NS):
                    if k == 'cn' and ns == '':
                        continue
                    for pred in ('none', 'int_leaf', 'holds_one_int'):
                        ctx.run_case({'kind': 'deep', 'container': k, 'depth': depth,
                                      'cfg': {'nil': False, 'ns': ns, 'pred': pred, 'mode': 'sorted'}})


def _bad_nodes(desc):
    if isinstance(desc, list):
        if desc and desc[0] == 'bad':
            yield desc
        for x in desc:
            yield from _bad_nodes(x)


PROP = C03()
if __name__ == '__main__':
    runner.main(PROP)
