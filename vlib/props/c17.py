"""C17  concurrent use from several threads is equivalent to some sequential use.

Owned schedules: every operation runs in its own thread; every Python-level callback the engine can
reach (predicate, custom flatten/unflatten, mapped function, key __lt__/__hash__/__eq__, metadata
__eq__/__repr__, metaclass hooks consulted during registration, warnings.showwarning) calls
sched.point(), which parks the thread; the scheduler releases exactly one thread per step.  The
interleavings of 2-3 operations are enumerated by stateless DFS over the scheduling choices.  Schedules
run in a worker process guarded by faulthandler.dump_traceback_later(exit=True) - a C-level watchdog
that fires even when a thread blocks on an engine lock while holding the GIL - and the worker journals
the schedule it is about to run, so a wedge or crash identifies its schedule.
"""
from __future__ import annotations

import json
import os
import subprocess
import sys
import threading

from hypothesis import strategies as st

from vlib import runner

WEDGE_SECONDS = 25
BLOCK_SECONDS = 0.5


# =============================================================== scheduler (worker side)
class Sched:
    def __init__(self):
        self.cv = threading.Condition()
        self.turn = None
        self.state = {}
        self.tls = threading.local()
        self.enabled = False

    def point(self, label=''):
        me = getattr(self.tls, 'name', None)
        if me is None or not self.enabled:
            return
        with self.cv:
            self.state[me] = 'parked'
            if self.turn == me:
                self.turn = None
            self.cv.notify_all()
            self.cv.wait_for(lambda: self.turn == me)
            self.state[me] = 'running'

    def run(self, ops, choices, max_steps=400):
        """ops: {name: thunk}; choices: list of indices into the sorted live set (DFS prefix).
        -> (results, trace) where trace[i] = (n_live, chosen_index)"""
        results = {}
        self.state = {n: 'new' for n in ops}
        self.turn = None
        self.enabled = True

        def body(n, f):
            self.tls.name = n
            with self.cv:
                self.state[n] = 'parked'
                self.cv.notify_all()
                self.cv.wait_for(lambda: self.turn == n)
                self.state[n] = 'running'
            try:
                results[n] = ('ok', f())
            except BaseException as e:  # noqa: BLE001
                results[n] = ('exc', type(e).__name__, str(e)[:120])
            with self.cv:
                self.state[n] = 'done'
                if self.turn == n:
                    self.turn = None
                self.cv.notify_all()

        ths = [threading.Thread(target=body, args=(n, f), daemon=True) for n, f in ops.items()]
        for t in ths:
            t.start()
        with self.cv:
            self.cv.wait_for(lambda: all(v == 'parked' for v in self.state.values()))
        trace = []
        step = 0
        while True:
            with self.cv:
                live = sorted(n for n, v in self.state.items() if v == 'parked')
                if not live:
                    if any(v in ('blocked', 'running') for v in self.state.values()):
                        # only blocked threads are left: wait for one of them to get on
                        if not self.cv.wait_for(lambda: any(v == 'parked' for v in self.state.values())
                                                or all(v == 'done' for v in self.state.values()), timeout=WEDGE_SECONDS):
                            raise RuntimeError('all remaining threads are blocked')
                        continue
                    break
                idx = choices[step] if step < len(choices) else 0
                idx = min(idx, len(live) - 1)
                trace.append((len(live), idx))
                step += 1
                if step > max_steps:
                    raise RuntimeError('schedule too long')
                self.turn = live[idx]
                self.cv.notify_all()
                # the released thread runs to its next point or to completion; if it blocks on a
                # *Python-level* lock held by a parked thread (GIL released: not a wedge) we go on
                # and release another thread - it will park / finish later
                if not self.cv.wait_for(lambda: self.turn is None, timeout=BLOCK_SECONDS):
                    self.state[live[idx]] = 'blocked'
                    self.turn = None
        for t in ths:
            t.join()
        self.enabled = False
        return results, trace


S = Sched()


# =============================================================== operations (worker side)
def setup_worker():
    import warnings

    import optree
    from vlib import universe as U
    U.TICK.reset()
    U.TICK.hook = lambda count, kind: S.point(kind)
    def showwarning(message, category, filename, lineno, file=None, line=None):
        S.point('showwarning')

    warnings.showwarning = showwarning
    warnings.simplefilter('always')
    return optree, U


class MetaHook(type):
    """metaclass whose repr / missing-attribute hook are scheduling points"""

    def __repr__(cls):
        S.point('meta_class_repr')
        return f'<MetaHook {cls.__name__}>'

    def __getattr__(cls, name):
        S.point('meta_class_getattr')
        raise AttributeError(name)


class ClassAttrHook(type):
    """metaclass whose attribute lookup is a scheduling point for the names the namedtuple heuristic reads"""

    def __getattribute__(cls, name):
        if name in ('_fields', '_make', '_asdict'):
            S.point('class_attr_' + name)
        return super().__getattribute__(name)


def build_ops(name):
    """-> (ops dict, checker(results, solo) -> list of failures) for an operation tuple"""
    import pickle
    from collections import namedtuple

    import optree
    from vlib import universe as U
    FN, FK, FM, Leaf, NS = U.FN, U.FK, U.FM, U.Leaf, U.NSF

    def pred(x):
        S.point('pred')
        return False

    def fmap(x, *r):
        S.point('map_fn')
        return ('m', x)

    L = [Leaf(i) for i in range(8)]
    tree = [L[0], FN([L[1], (L[2], FN([L[3]], FM(1)))], FM(2)), {FK(2): L[4], FK(1): L[5]}]
    tree2 = (FN([L[6]], None), [L[7]])
    spec = optree.tree_structure(tree, namespace=NS)
    spec_b = optree.tree_structure([L[0], FN([L[1], (L[2], FN([L[3]], FM(1)))], FM(2)), {FK(2): L[4], FK(1): L[5]}], namespace=NS)
    leaves = optree.tree_leaves(tree, namespace=NS)

    def op_flatten():
        l, s = optree.tree_flatten(tree, is_leaf=pred, namespace=NS)
        return [x.n for x in l], len(s.paths())

    def op_flatten2():
        l, s = optree.tree_flatten(tree2, namespace=NS)
        return [x.n for x in l], s.num_nodes

    def op_with_path():
        p, l, s = optree.tree_flatten_with_path(tree, namespace=NS)
        return [x.n for x in l], len(p)

    def op_map():
        out = optree.tree_map(fmap, tree, namespace=NS)
        return [x[1].n for x in optree.tree_leaves(out, is_leaf=lambda x: type(x) is tuple and x[:1] == ('m',), namespace=NS)]

    def op_unflatten():
        t = spec.unflatten(leaves)
        return [x.n for x in optree.tree_leaves(t, namespace=NS)]

    def op_iter():
        return [x.n for x in optree.tree_iter(tree, is_leaf=pred, namespace=NS)]

    def op_eq():
        return (spec == spec_b, spec != spec_b, spec <= spec_b)

    def op_hash():
        return hash(spec) == hash(spec_b)

    def op_repr():
        return repr(spec).count('FM(')

    def op_pickle():
        return repr(pickle.loads(pickle.dumps(spec))) .count('CustomTreeNode')

    def op_inspect():
        return (len(spec.paths()), len(spec.accessors()), spec.num_leaves, len(spec.children()))

    # self-referential treespecs: metadata whose repr prints the treespec that holds it, a dict key whose hash is
    # the hash of the treespec that holds it (the engine cuts the recursion per (treespec, thread))
    class SelfMeta:
        spec = None

        def __repr__(self):
            S.point('meta_repr')
            return f'SelfMeta<{self.spec!r}>'

    class SelfKey:
        spec = None

        def __hash__(self):
            S.point('key_hash')
            return 7 + (hash(self.spec) % 1000 if self.spec is not None else 0)

        def __eq__(self, other):
            return self is other

        def __lt__(self, other):
            return id(self) < id(other)

        def __repr__(self):
            return 'SelfKey'

    smeta, skey = SelfMeta(), SelfKey()
    self_spec = optree.tree_structure([FN([L[0]], smeta), {skey: L[1], 'k': L[2]}], namespace=NS)
    smeta.spec = self_spec
    skey.spec = self_spec

    def op_selfrepr():
        return repr(self_spec)

    def op_selfhash():
        return hash(self_spec)

    # an operation that *fails* (key-set mismatch between dict nodes whose keys have a Python-level __lt__) while
    # another thread reads the argument treespec: the error path must not touch shared treespec data
    mis_tree = [L[0], FN([L[1], (L[2], FN([L[3]], FM(1)))], FM(2)), {FK(3): L[4], FK(2): L[5], FK(5): L[6]}]
    mis_spec = optree.tree_structure(mis_tree, namespace=NS)
    mis_twin = optree.tree_structure([L[0], FN([L[1], (L[2], FN([L[3]], FM(1)))], FM(2)), {FK(3): L[4], FK(2): L[5], FK(5): L[6]}], namespace=NS)
    own_tree = [L[0], FN([L[1], (L[2], FN([L[3]], FM(1)))], FM(2)), {FK(2): L[4], FK(1): L[5], FK(4): L[6]}]
    own_spec = optree.tree_structure(own_tree, namespace=NS)

    def op_failing_broadcast():
        try:
            own_spec.broadcast_to_common_suffix(mis_spec)
            return 'accepted'
        except ValueError:
            return 'ValueError'

    def op_read_argument():
        return (repr(mis_spec).count('FK('), mis_spec == mis_twin, hash(mis_spec) == hash(mis_twin),
                [x.n for x in optree.tree_leaves(mis_spec.unflatten(list(L[:7])), namespace=NS)], len(mis_spec.paths()))

    def op_broadcast():
        a, b = optree.tree_broadcast_common(tree, tree, namespace=NS)
        return len(optree.tree_leaves(a, namespace=NS))

    def op_reg_plain():
        class Tmp:
            pass
        optree.register_pytree_node(Tmp, lambda o: ((), None), lambda m, c: Tmp(), namespace='c17x')
        optree.unregister_pytree_node(Tmp, namespace='c17x')
        return 'reg'

    def op_reg_nt():
        Tmp = namedtuple('Tmp', 'a b')
        optree.register_pytree_node(Tmp, lambda o: (tuple(o), None), lambda m, c: Tmp(*c), namespace='c17x')
        r = optree.tree_structure(Tmp(1, 2), namespace='c17x').kind == optree.PyTreeKind.CUSTOM
        optree.unregister_pytree_node(Tmp, namespace='c17x')
        return r

    def op_reg_meta():
        Tmp = MetaHook('TmpM', (tuple,), {})
        try:
            optree.register_pytree_node(Tmp, lambda o: (tuple(o), None), lambda m, c: Tmp(c), namespace='c17x')
            optree.register_pytree_node(Tmp, lambda o: (tuple(o), None), lambda m, c: Tmp(c), namespace='c17x')
            return 'dup accepted'
        except ValueError:
            pass
        finally:
            try:
                optree.unregister_pytree_node(Tmp, namespace='c17x')
            except ValueError:
                pass
        try:
            optree.unregister_pytree_node(Tmp, namespace='c17x')
            return 'absent unregister accepted'
        except ValueError:
            return 'reg-meta'

    shared = {}

    if name == 'shared_iter':
        it = optree.tree_iter(tree, is_leaf=pred, namespace=NS)
        outs = {'A': [], 'B': [], 'C': []}

        def consumer(k):
            def f():
                for x in it:
                    outs[k].append(x.n)
                return None
            return f

        def check(results, solo):
            got = sorted(outs['A'] + outs['B'])
            fails = []
            if got != sorted(x.n for x in leaves):
                fails.append(('shared_iter/exactly_once', f'A={outs["A"]} B={outs["B"]} expected {sorted(x.n for x in leaves)}'))
            for k, r in results.items():
                if r[0] != 'ok':
                    fails.append(('shared_iter/raises', f'{k}: {r}'))
            return fails, bool(outs['A'] and outs['B'])
        return {'A': consumer('A'), 'B': consumer('B')}, check, None

    if name == 'first_classification_of_a_namedtuple_class':
        # a namedtuple class nobody has classified yet (its attribute lookups are scheduling points): every thread that
        # flattens an instance during that first classification must still see a namedtuple node, not a leaf
        Base = namedtuple('Point17', 'x y')
        Hooked = ClassAttrHook('Hooked17', (Base,), {})

        def flat(k):
            def f():
                return list(optree.tree_leaves((Hooked(1, 2), [3]))), optree.tree_structure(Hooked(4, 5)).kind == optree.PyTreeKind.NAMEDTUPLE
            return f

        def check(results, solo):
            fails = []
            for k, r in results.items():
                if r != ('ok', ([1, 2, 3], True)):
                    fails.append(('first_classification/result_differs', f'{k}: {r!r} (alone: ([1, 2, 3], True))'))
            return fails, True
        return {'A': flat('A'), 'B': flat('B'), 'C': flat('C')}, check, None

    if name == 'same_registration':
        class Dup:
            pass
        won = []

        def reg(k):
            def f():
                try:
                    optree.register_pytree_node(Dup, lambda o: (S.point('flatten') or (), None), lambda m, c: Dup(), namespace='c17x')
                    won.append(k)
                    return 'won'
                except ValueError:
                    return 'lost'
            return f

        def check(results, solo):
            fails = []
            vals = sorted(r[1] if r[0] == 'ok' else r[1] for r in results.values())
            if vals != ['lost', 'won']:
                fails.append(('same_registration/exactly_once', f'{results}'))
            try:
                optree.unregister_pytree_node(Dup, namespace='c17x')
            except Exception as e:  # noqa: BLE001
                fails.append(('same_registration/unregister', f'{type(e).__name__}: {e}'))
            return fails, True
        return {'A': reg('A'), 'B': reg('B')}, check, None

    if name == 'register|unregister_same_type':
        X = namedtuple('X17', 'a b')      # registering a namedtuple class emits a warning => a scheduling point
        outcome = {}

        def reg():
            optree.register_pytree_node(X, lambda o: (tuple(o), 'x17'), lambda m, c: X(*c), namespace='c17x')
            return 'registered'

        def unreg():
            try:
                optree.unregister_pytree_node(X, namespace='c17x')
                return 'unregistered'
            except ValueError:
                return 'not-registered'

        def check(results, solo):
            fails = []
            a, b = results['A'], results['B']
            if a != ('ok', 'registered'):
                fails.append(('register_unregister/register_failed', f'{a}'))
            if b[0] != 'ok':
                fails.append(('register_unregister/unregister_wrong_exception', f'{b}'))
            # final state must be the one of a sequential order, and engine and Python mirror must agree
            is_custom = optree.tree_structure(X(1, 2), namespace='c17x').kind == optree.PyTreeKind.CUSTOM
            h = optree.register_pytree_node.get(X, namespace='c17x')
            mirror_custom = h is not None and h.kind == optree.PyTreeKind.CUSTOM
            if is_custom != mirror_custom:
                fails.append(('register_unregister/mirror_torn', f'engine custom={is_custom} python registry custom={mirror_custom}; results {results}'))
            want_custom = (b == ('ok', 'not-registered'))       # unregister ran first => registration survives
            if b[0] == 'ok' and a == ('ok', 'registered') and is_custom != want_custom:
                fails.append(('register_unregister/not_sequential', f'results {results}, finally custom={is_custom}'))
            for ns_ in ('c17x',):
                try:
                    optree.unregister_pytree_node(X, namespace=ns_)
                except ValueError:
                    pass
                try:
                    optree._C.unregister_node(X, ns_)
                except Exception:  # noqa: BLE001
                    pass
            return fails, True
        return {'A': reg, 'B': unreg}, check, None

    if name == 'registry_change_of_flattened_type':
        class RC:
            def __init__(self, v):
                self.v = v
        t = [RC(1), (RC(2), RC(3)), RC(4)]

        def fl_old(o):
            S.point('flatten')
            return (o.v,), 'old'

        def fl_new(o):
            S.point('flatten')
            return (o.v, o.v), 'new'

        optree.register_pytree_node(RC, fl_old, lambda m, c: RC(c[0]), namespace='c17rc')

        def flat():
            l, s = optree.tree_flatten(t, namespace='c17rc')
            return l, s

        def change():
            optree.unregister_pytree_node(RC, namespace='c17rc')
            optree.register_pytree_node(RC, fl_new, lambda m, c: RC(c[0]), namespace='c17rc')
            return 'changed'

        def check(results, solo):
            fails = []
            r = results['A']
            if r[0] != 'ok':
                fails.append(('registry_change/flatten_raises', f'{r}'))
            else:
                l, s = r[1]
                # every RC node is treated wholly by the old (1 child, meta 'old'), the new (2 children, 'new')
                # registration, or - in the window between unregister and register - as a leaf
                i = 0
                for v in (1, 2, 3, 4):
                    if i < len(l) and isinstance(l[i], RC):
                        i += 1
                    elif l[i:i + 2] == [v, v]:
                        i += 2
                    elif l[i:i + 1] == [v]:
                        i += 1
                    else:
                        fails.append(('registry_change/torn_node', f'leaves {l} at node {v}'))
                        break
                rp = repr(s)
                if rp.count("['old'], [*])") + rp.count("['new'], [*, *])") != rp.count('CustomTreeNode'):
                    fails.append(('registry_change/torn_node_spec', rp))
            try:
                optree.unregister_pytree_node(RC, namespace='c17rc')
            except Exception as e:  # noqa: BLE001
                fails.append(('registry_change/unregister', f'{type(e).__name__}: {e}'))
            return fails, True
        return {'A': flat, 'B': change}, check, None

    table = {
        'flatten|map': {'A': op_flatten, 'B': op_map},
        'flatten|reg_nt': {'A': op_flatten, 'B': op_reg_nt},
        'map|reg_nt': {'A': op_map, 'B': op_reg_nt},
        'flatten2|reg_nt': {'A': op_flatten2, 'B': op_reg_nt},
        'inspect|reg_nt': {'A': op_inspect, 'B': op_reg_nt},
        'unflatten|reg_meta': {'A': op_unflatten, 'B': op_reg_meta},
        'flatten2|reg_meta': {'A': op_flatten2, 'B': op_reg_meta},
        'reg_nt|reg_nt': {'A': op_reg_nt, 'B': op_reg_nt},
        'reg_nt|reg_meta': {'A': op_reg_nt, 'B': op_reg_meta},
        'eq|hash': {'A': op_eq, 'B': op_hash},
        'eq|eq': {'A': op_eq, 'B': op_eq},
        'hash|hash': {'A': op_hash, 'B': op_hash},
        'repr|repr': {'A': op_repr, 'B': op_repr},
        'repr|pickle': {'A': op_repr, 'B': op_pickle},
        'hash|repr': {'A': op_hash, 'B': op_repr},
        'iter|with_path': {'A': op_iter, 'B': op_with_path},
        'unflatten|flatten': {'A': op_unflatten, 'B': op_flatten},
        'broadcast|inspect': {'A': op_broadcast, 'B': op_inspect},
        'flatten|map|reg_plain': {'A': op_flatten, 'B': op_map, 'C': op_reg_plain},
        'iter|unflatten|reg_nt': {'A': op_iter, 'B': op_unflatten, 'C': op_reg_nt},
        'eq|hash|repr': {'A': op_eq, 'B': op_hash, 'C': op_repr},
        'failing_broadcast|read_argument': {'A': op_failing_broadcast, 'B': op_read_argument},
        'failing_broadcast|read_argument|failing_broadcast': {'A': op_failing_broadcast, 'B': op_read_argument, 'C': op_failing_broadcast},
        'selfrepr|selfrepr': {'A': op_selfrepr, 'B': op_selfrepr},
        'selfhash|selfhash': {'A': op_selfhash, 'B': op_selfhash},
        'selfrepr|selfhash|selfrepr': {'A': op_selfrepr, 'B': op_selfhash, 'C': op_selfrepr},
    }
    ops = table[name]

    def check(results, solo):
        fails = []
        for k, r in results.items():
            if r != solo[k]:
                fails.append((f'result_differs/{name}', f'{k}: concurrent {r!r} vs solo {solo[k]!r}'))
        return fails, True
    return ops, check, {k: _solo(f) for k, f in ops.items()}


def _solo(f):
    try:
        return ('ok', f())
    except BaseException as e:  # noqa: BLE001
        return ('exc', type(e).__name__, str(e)[:120])


TUPLES = ['flatten|map', 'flatten|reg_nt', 'map|reg_nt', 'flatten2|reg_nt', 'inspect|reg_nt', 'unflatten|reg_meta',
          'flatten2|reg_meta', 'reg_nt|reg_nt', 'reg_nt|reg_meta', 'eq|hash', 'eq|eq', 'hash|hash', 'repr|repr', 'repr|pickle',
          'hash|repr', 'iter|with_path', 'unflatten|flatten', 'broadcast|inspect', 'flatten|map|reg_plain', 'iter|unflatten|reg_nt',
          'eq|hash|repr', 'failing_broadcast|read_argument', 'failing_broadcast|read_argument|failing_broadcast',
          'first_classification_of_a_namedtuple_class', 'selfrepr|selfrepr', 'selfhash|selfhash', 'selfrepr|selfhash|selfrepr', 'shared_iter', 'same_registration', 'registry_change_of_flattened_type',
          'register|unregister_same_type']


def preemptive(req):
    """randomized pre-emptive supplement: many threads, microsecond switch interval, same solo oracle"""
    import faulthandler
    import random

    import optree
    from vlib import universe as U
    names = ['flatten|map', 'unflatten|flatten', 'eq|hash', 'repr|pickle', 'iter|with_path', 'broadcast|inspect',
             'flatten2|reg_nt', 'unflatten|reg_meta']
    table = []
    for n in names:
        ops, _check, solo = build_ops(n)
        for k, f in ops.items():
            table.append((f'{n}:{k}', f, solo[k]))
    fails = []
    old = sys.getswitchinterval()
    sys.setswitchinterval(1e-6)
    faulthandler.dump_traceback_later(120, exit=True)
    try:
        def body(i):
            rnd = random.Random(req['seed'] * 1000 + i)
            for _ in range(req['iters']):
                name, f, solo = table[rnd.randrange(len(table))]
                r = _solo(f)
                if r != solo:
                    fails.append((f'preemptive/result_differs/{name.split(":")[0]}', f'{name}: {r!r} vs solo {solo!r}'))
        ths = [threading.Thread(target=body, args=(i,), daemon=True) for i in range(req['threads'])]
        for t in ths:
            t.start()
        for t in ths:
            t.join(110)
        if any(t.is_alive() for t in ths):
            fails.append(('preemptive/wedge', 'threads still alive after 110 s'))
        # shared iterator under pre-emption
        for round_ in range(20):
            L = [U.Leaf(i) for i in range(50)]
            tree = [L[:10], {'a': L[10:30], 'b': (L[30:40], U.FN(L[40:], None))}]
            it = optree.tree_iter(tree, is_leaf=lambda x: False, namespace=U.NSF)
            outs = [[] for _ in range(req['threads'])]

            def consume(i):
                for x in it:
                    outs[i].append(x.n)
            ths = [threading.Thread(target=consume, args=(i,), daemon=True) for i in range(req['threads'])]
            for t in ths:
                t.start()
            for t in ths:
                t.join(60)
            got = sorted(x for o in outs for x in o)
            if got != list(range(50)):
                fails.append(('preemptive/shared_iter', f'round {round_}: {got}'))
    finally:
        faulthandler.cancel_dump_traceback_later()
        sys.setswitchinterval(old)
    return {'schedules': req['threads'] * req['iters'], 'nontrivial': req['threads'] * req['iters'], 'fails': fails[:20],
            'exhausted': False, 'max_points': 1}


def worker_main():
    import faulthandler
    setup_worker()
    for line in sys.stdin:
        req = json.loads(line)
        if req.get('preemptive'):
            runner.journal(req)
            try:
                res = preemptive(req)
            except BaseException as e:  # noqa: BLE001
                res = {'schedules': 0, 'nontrivial': 0, 'fails': [('harness', f'{type(e).__name__}: {e}')], 'exhausted': False, 'max_points': 0}
            sys.stdout.write(json.dumps(res) + '\n')
            sys.stdout.flush()
            continue
        name, cap = req['tuple'], req['cap']
        fails = []
        n_sched = n_nontrivial = 0
        if 'choices' in req:
            stack = [req['choices']]
            cap = 1
        else:
            stack = [[]]
        seen = set()
        maxpoints = 0
        while stack and n_sched < cap:
            prefix = stack.pop()
            runner.journal({'tuple': name, 'choices': prefix})
            faulthandler.dump_traceback_later(WEDGE_SECONDS, exit=True)
            try:
                ops, check, solo = build_ops(name)
                results, trace = S.run(ops, prefix)
                f, nontriv = check(results, solo)
            except BaseException as e:  # noqa: BLE001
                f, nontriv, trace = [('harness', f'{type(e).__name__}: {e}')], False, []
            faulthandler.cancel_dump_traceback_later()
            n_sched += 1
            key = tuple(i for _n, i in trace)
            seen.add(key)
            switches = sum(1 for a, b in zip(key, key[1:]) if a != b)
            n_nontrivial += bool(nontriv and (switches >= 1 or len(trace) > 2))
            maxpoints = max(maxpoints, len(trace))
            for o, m in f:
                fails.append((o, f'schedule {list(key)}: {m}'))
            # DFS: branch on every alternative after the prefix
            for i in range(len(prefix), len(trace)):
                n_live, chosen = trace[i]
                for alt in range(n_live):
                    if alt != chosen:
                        stack.append(list(key[:i]) + [alt])
        sample = sorted(seen, key=len)[-1] if seen else ()
        sys.stdout.write(json.dumps({'schedules': n_sched, 'nontrivial': n_nontrivial, 'fails': fails[:20],
                                     'exhausted': not stack, 'max_points': maxpoints,
                                     'sample': {'tuple': name, 'choices': list(sample)}}) + '\n')
        sys.stdout.flush()


# =============================================================== parent side
class Worker:
    def __init__(self, tag):
        self.journal = str(runner.VERIF / '.build' / f'c17-journal-{tag}-{os.getpid()}.json')
        self.errlog = self.journal + '.stderr'
        self.start()

    def start(self):
        env = dict(os.environ)
        env['VERIF_JOURNAL'] = self.journal
        self.err = open(self.errlog, 'w')
        self.p = subprocess.Popen([sys.executable, '-m', 'vlib.props.c17', '--worker'], stdin=subprocess.PIPE,
                                  stdout=subprocess.PIPE, stderr=self.err, text=True, bufsize=1, env=env)

    def ask(self, req):
        try:
            self.p.stdin.write(json.dumps(req) + '\n')
            self.p.stdin.flush()
            line = self.p.stdout.readline()
        except (BrokenPipeError, OSError):
            line = ''
        if line:
            return json.loads(line), None
        rc = self.p.wait()
        self.err.close()
        tail = open(self.errlog).read()[-3000:]
        try:
            j = json.loads(open(self.journal).read())
        except Exception:  # noqa: BLE001
            j = None
        self.start()
        return None, {'exit': rc, 'journal': j, 'stderr': tail}

    def close(self):
        try:
            self.p.stdin.close()
            self.p.wait(timeout=20)
        except Exception:  # noqa: BLE001
            self.p.kill()
        for f in (self.journal, self.errlog):
            try:
                os.unlink(f)
            except OSError:
                pass


class C17(runner.Prop):
    ID = 'C17'
    LEVEL = 'model_checking'
    RULE = ('25 operation tuples (2-3 operations from flatten / flatten_with_path / map / unflatten / iter / ==,<= / hash / repr / '
            'pickle / inspect / broadcast x register+unregister of an unrelated plain / namedtuple / metaclass-hooked type, shared '
            'iterator, concurrent identical registrations, registry change of the type being flattened); for each tuple the '
            'interleavings at callback granularity are enumerated by stateless DFS over the scheduler choices (capped per tuple: '
            'quick 150, thorough 3000); a case = one executed schedule; non-trivial = schedule with >= 1 thread switch between '
            'callbacks; distinct = the choice sequence; plus Hypothesis-generated random choice prefixes')
    ASSUMPTIONS = [
        'GIL build: a thread switch inside an engine call can only happen inside a Python-level callback or where the engine blocks; those are exactly the scheduling points (free-threaded builds are not available in this sandbox)',
        'a wedge is detected by a C-level watchdog (faulthandler.dump_traceback_later, %d s) for operations that take microseconds under an owned schedule' % WEDGE_SECONDS,
        'the dict-order mode switch is excluded (documented as not thread-safe)',
    ]
    tree_keys = ()
    _w = None

    def budget(self, tier):
        return 40 if tier == 'quick' else 600

    def strategy(self, tier):
        return st.fixed_dictionaries({'tuple': st.sampled_from(TUPLES),
                                      'choices': st.lists(st.integers(0, 2), min_size=1, max_size=14)})

    def worker(self, ctx):
        if C17._w is None:
            C17._w = Worker(f's{getattr(ctx, "shard", 0)}')
        return C17._w

    def check_case(self, case, ctx):
        req = dict(case)
        req.setdefault('cap', 1)
        res, crash = self.worker(ctx).ask(req)
        if crash is not None:
            j = crash['journal'] or {}
            wedge = 'Timeout' in crash['stderr']
            stacks = ' | '.join(ln.strip() for ln in crash['stderr'].splitlines() if 'File' in ln and ('optree' in ln or 'c17' in ln))[:500]
            ctx.fail(f'{"wedge" if wedge else "crash"}/{case["tuple"]}',
                     f'worker {"wedged (watchdog %ds)" % WEDGE_SECONDS if wedge else "died exit %s" % crash["exit"]} at schedule {j.get("choices")} :: {stacks}')
            ctx.nontrivial(True)
            return
        for o, m in res['fails']:
            if o == 'harness':
                raise RuntimeError(m)
            ctx.fail(o, m)
        if ctx.recording:
            if res.get('sample') and len(ctx.samples) < 5 and 'cap' in case:
                ctx.samples.append(res['sample'])
            ctx.evaluations += max(0, res['schedules'] - 1)
            for i in range(res['nontrivial']):
                ctx.nontrivial_hashes.add(runner.jhash([case['tuple'], case.get('choices'), i]))
            ctx.extra_cov['transitions'] = ctx.extra_cov.get('transitions', 0) + res['schedules'] * res['max_points']
            ctx.extra_cov['traces_validated_against_impl'] = ctx.extra_cov.get('traces_validated_against_impl', 0) + res['schedules']
            if 'cap' in case:
                ctx.extra_cov.setdefault('exhausted_tuples', [])
                if res['exhausted']:
                    ctx.extra_cov['exhausted_tuples'] = (ctx.extra_cov['exhausted_tuples'] + [case['tuple']])[:30]
        ctx.label('tuple:' + case['tuple'])

    def extra(self, ctx):
        cap = 150 if ctx.tier == 'quick' else 3000
        for i, t in enumerate(TUPLES):
            if i % ctx.nshards == ctx.shard:
                ctx.run_case({'tuple': t, 'cap': cap})
        ctx.run_case({'tuple': 'preemptive', 'preemptive': True, 'threads': 8, 'iters': 150 if ctx.tier == 'quick' else 3000,
                      'seed': ctx.seed * 100 + ctx.shard})
        ctx.extra_cov['states'] = len(TUPLES)
        if C17._w is not None:
            C17._w.close()
            C17._w = None


PROP = C17()
if __name__ == '__main__':
    if '--worker' in sys.argv:
        worker_main()
    else:
        runner.main(PROP)
