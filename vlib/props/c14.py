"""C14  treespecs are immutable values independent of their source tree and registry
(snapshot invariance under generated action histories; input immutability of every API op; GC)."""
from __future__ import annotations

import copy
import gc
import pickle
import weakref
from collections import OrderedDict, defaultdict, deque

import optree
from hypothesis import strategies as st

from vlib import gen, model, runner
from vlib import universe as U
from vlib.props.c11 import obs_diff, observe

class EntryObj:
    """a path-entry object (hashable) that can hold references"""

    def __init__(self, name):
        self.name = name

    def __repr__(self):
        return f'EntryObj({self.name})'


class CE:
    """custom node whose explicit path entries are objects stored on the instance"""

    def __init__(self, ch, entries):
        self.ch, self.entries = list(ch), tuple(entries)

    def __getitem__(self, e):
        return self.ch[self.entries.index(e)]


optree.register_pytree_node(CE, lambda o: (tuple(o.ch), None, o.entries), lambda m, c: CE(c, [EntryObj(i) for i in range(len(c))]),
                            namespace='c14ns')

ACTIONS = ('mutate_source', 'mutate_returned', 'unregister', 'rereg', 'gc', 'del_tree', 'use_spec', 'rereg_other')


def full_observe(spec):
    o = observe(spec)
    o['hash'] = hash(spec)
    n = spec.num_leaves
    toks = [U.Leaf(1001 + 2 * i) for i in range(n)]
    try:
        rebuilt = spec.unflatten(toks)
        o['unflatten'] = describe(rebuilt)
    except Exception as e:  # noqa: BLE001
        o['unflatten'] = f'raises {type(e).__name__}: {e}'
    return o


def register_other(cls, ns):
    """register `cls` in `ns` with functions that differ from the universe's: children in reverse order"""
    fl, un, pet = U.MODEL_REGISTRY[(ns, cls)]
    if fl is U._cls_flatten:
        fl, un = (lambda o: o.tree_flatten()), cls.tree_unflatten

    def fl2(o, _fl=fl):
        out = _fl(o)
        return tuple(out[0])[::-1], out[1]

    def un2(meta, children, _un=un):
        return _un(meta, tuple(children)[::-1])
    optree.register_pytree_node(cls, fl2, un2, path_entry_type=pet, namespace=U.GLOBAL if ns == '' else ns)


def describe(x):
    """deep value description of a tree (types, key order, metadata, leaf reprs)"""
    t = type(x)
    if t in (list, tuple, deque) or (isinstance(x, tuple) and (model.is_namedtuple_class(t) or model.is_structseq_class(t))):
        extra = (x.maxlen,) if t is deque else ()
        return (t.__name__, extra, tuple(describe(c) for c in x))
    if t in (dict, OrderedDict, defaultdict):
        extra = (repr(x.default_factory),) if t is defaultdict else ()
        return (t.__name__, extra, tuple((repr(k), describe(v)) for k, v in x.items()))
    if t in U.CUSTOM_CLASSES:
        if t.__name__ == 'partial':
            return ('partial', repr(x.func), describe(tuple(x.args)), describe(dict(x.keywords)))
        f, m = x._v_fields()
        return (t.__name__, repr(m), tuple((n, describe(v)) for n, v in f))
    return ('leaf', t.__name__, repr(x))


def snapshot(x):
    """description + identities of every container (detects in-place mutation and replacement)"""
    t = type(x)
    if t in (list, tuple, deque) or (isinstance(x, tuple) and (model.is_namedtuple_class(t) or model.is_structseq_class(t))):
        return (t.__name__, id(x), getattr(x, 'maxlen', None), tuple(snapshot(c) for c in x))
    if t in (dict, OrderedDict, defaultdict):
        return (t.__name__, id(x), tuple((id(k), snapshot(v)) for k, v in x.items()))
    if t in U.CUSTOM_CLASSES:
        if t.__name__ == 'partial':
            return ('partial', id(x), id(x.func), snapshot(tuple(x.args))[3], snapshot(dict(x.keywords))[2])
        f, m = x._v_fields()
        if hasattr(x, 'ch'):     # _v_fields() wraps the children in a fresh list: use the real one
            return (t.__name__, id(x), repr(m), id(x.ch), tuple(snapshot(v) for v in x.ch))
        return (t.__name__, id(x), repr(m), tuple((n, snapshot(v)) for n, v in f))
    return ('leaf', id(x))


def mutate_source(tree, seed):
    """mutate every mutable container reachable in the source tree"""
    for k, c in enumerate(model.containers_of(tree)):
        t = type(c)
        how = (seed + k) % 4
        try:
            if t is list:
                if how == 0:
                    c.clear()
                elif how == 1:
                    c.append(U.Leaf(900 + k))
                elif how == 2 and c:
                    c.pop(0)
                else:
                    c.reverse()
                    c.insert(0, [U.Leaf(901)])
            elif t in (dict, OrderedDict, defaultdict):
                if how == 0:
                    c.clear()
                elif how == 1:
                    c['__new__'] = U.Leaf(902)
                elif how == 2 and c:
                    k0 = next(iter(c))
                    v = c.pop(k0)
                    c[k0] = (v, v)
                else:
                    if t is OrderedDict and c:
                        c.move_to_end(next(iter(c)))
                    c[('new', k)] = {'x': 1}
            elif t is deque:
                if how % 2:
                    c.append(U.Leaf(903))
                else:
                    c.clear()
            elif t in (U.CG, U.CU, U.CI, U.CSeq):
                c.ch.append(U.Leaf(904))
                if t is U.CG:
                    c.tag = 'mutated'
                if t is U.CU:
                    c.meta.append(99)
            elif t is U.CN:
                c.x, c.y, c.meta = c.y, [c.x], 'mutated'
            elif t is U.CS:
                c.a, c.b = c.b, (c.a,)
            elif t is U.CM:
                c.data['__new__'] = 1
            elif t is U.CMap:
                c.d['__new__'] = 1
            elif t is U.DC:
                c.x, c.tag = [c.x], 'mutated'
        except Exception:  # noqa: BLE001
            pass


def mutate_returned(spec, leaves):
    """mutate every list a treespec hands out"""
    for getter in (spec.paths, spec.accessors, spec.entries, spec.children):
        lst = getter()
        if not isinstance(lst, list):
            continue
        lst.append('junk')
        lst.reverse()
        if lst:
            lst[0] = None
        lst.clear()
    if spec.num_children:
        c = spec.child(0)
        c.entries().append(1)
    ol = spec.one_level()
    if ol is not None:
        ol.entries().clear()
        ol.children().clear()
    leaves.clear()
    leaves.append('junk')


class C14(runner.Prop):
    ID = 'C14'
    LEVEL = 'exploration'
    RULE = ('generated (tree, cfg) x generated action histories over {mutate every source container, mutate every returned list, '
            'unregister / re-register a mentioned custom type, gc.collect, delete the tree, use the spec}; the full observation of '
            'the spec (repr, hash, counts, paths, accessors, entries, children, tree it unflattens tokens into) must equal the '
            'first one after every action; a table of API operations must leave trees / leaf lists / operand specs untouched '
            '(deep snapshot incl. container identities); leaves must be collectable while the spec lives; specs in reference '
            'cycles through metadata / key objects must be collected; non-trivial = tree has >=1 mutable container and >=2 leaves '
            'and the history has >=2 different actions; distinct = sha1(case)')
    ASSUMPTIONS = [
        'observation uses only public treespec API',
        'unregister / re-register histories restore the universe registrations at the end of the case',
    ]
    tree_keys = ('t', 'u')

    def budget(self, tier):
        return 200 if tier == "quick" else 1000

    def strategy(self, tier):
        ml = 10 if tier == 'quick' else 16

        @st.composite
        def cases(draw):
            t = draw(gen.tree_descs(ml))
            cfg = draw(gen.configs())
            key_edits = ('key_rename', 'key_add', 'key_remove')
            if gen.contains_tag(t, ('dict', 'dd')) and draw(st.booleans()):
                # stratum: the mismatch is a key-set mismatch between dicts (the error path that touches key lists),
                # more often than not with insertion-ordered dicts
                u, _e = gen.near_miss(draw, t, edits=key_edits)
                if draw(st.booleans()):
                    cfg = dict(cfg, mode=draw(st.sampled_from(['ins_global', 'ins_ns'])), ns=draw(st.sampled_from([U.NS, U.NS, ''])))
            else:
                u, _e = gen.near_miss(draw, t)          # a mismatching operand for the binary operations
            if draw(st.booleans()):
                u = gen.dict_variant(draw, u)
            return {'t': t, 'u': u, 'cfg': cfg,
                    'actions': draw(st.lists(st.sampled_from(ACTIONS), min_size=1, max_size=6)),
                    'seed': draw(st.integers(0, 3)), 'victim': draw(st.sampled_from(sorted(U.VICTIMS)))}

        return cases()

    def shrink_extra(self, case):
        for i in range(len(case['actions'])):
            c = dict(case)
            c['actions'] = case['actions'][:i] + case['actions'][i + 1:]
            if c['actions']:
                yield c

    def check_case(self, case, ctx):
        cfg = gen.sound_cfg(case)
        self.history(case, cfg, ctx)
        self.inputs_untouched(case, cfg, ctx)
        self.leaves_released(case, cfg, ctx)
        self.cycles(case, cfg, ctx)
        self.failed_operations(case, cfg, ctx)

    # ------------------------------------------------------------------ (1) snapshot invariance
    def history(self, case, cfg, ctx):
        kw = gen.kw(cfg)
        tree = gen.build(case['t'])
        with gen.ModeCtx(cfg):
            leaves, spec = optree.tree_flatten(tree, **kw)
            ms = model.Model.from_cfg(cfg).structure(tree)
        ncont = len(model.containers_of(tree))
        ctx.nontrivial(ncont >= 1 and spec.num_leaves >= 2 and len(set(case['actions'])) >= 2)
        obs0 = full_observe(spec)
        present = sorted(name for name, (vc, vn) in U.VICTIMS.items()
                         if any(n.kind == 'custom' and n.type is vc and n.reg == (vn, vc) for n in ms.walk()))
        victim = case['victim'] if (case['victim'] in present or not present) else present[0]
        vcls, vns = U.VICTIMS[victim]
        unregistered = False
        other_registered = False
        if present:
            ctx.label('mentions_victim')
        # flatten_up_to of the treespec against a second copy of the source tree: what it returns at creation is what
        # it may return later - or it may refuse (the registration it was made with is gone) - never anything else
        probe = gen.build(case['t'])

        def up_to():
            try:
                return ('ok', [id(x) for x in spec.flatten_up_to(probe)])
            except ValueError:
                return ('ValueError',)
            except Exception as e:  # noqa: BLE001
                return ('exc', f'{type(e).__name__}: {e}')
        with gen.ModeCtx(cfg):
            base_up = up_to()
        try:
            for i, a in enumerate(case['actions']):
                ctx.label('action:' + a)
                if a == 'mutate_source' and tree is not None:
                    mutate_source(tree, case['seed'])
                elif a == 'mutate_returned':
                    mutate_returned(spec, leaves)
                elif a == 'unregister' and not unregistered:
                    U.unregister(vcls, vns)
                    unregistered, other_registered = True, False
                elif a == 'rereg':
                    if not unregistered:
                        U.unregister(vcls, vns)
                    U.register_again(vcls, vns)
                    unregistered, other_registered = False, False
                elif a == 'rereg_other':
                    # the victim type gets a *different* registration (children in reverse order, same metadata)
                    if other_registered or not unregistered:
                        U.unregister(vcls, vns)
                    register_other(vcls, vns)
                    other_registered, unregistered = True, False
                elif a == 'gc':
                    gc.collect()
                elif a == 'del_tree':
                    tree = None
                    leaves = []
                    gc.collect()
                elif a == 'use_spec':
                    spec.unflatten(range(spec.num_leaves))
                    pickle.dumps(spec) if not unregistered else None
                    spec.compose(optree.treespec_leaf(none_is_leaf=cfg['nil']))
                    spec.broadcast_to_common_suffix(spec)
                    spec.transform(lambda s: s)
                    copy.deepcopy(spec) if not unregistered else None
                d = obs_diff(full_observe(spec), obs0)
                if d:
                    ctx.fail(f'snapshot/{a}', f'after action {i} ({a}): {d}')
                    break
                with gen.ModeCtx(cfg):
                    cur_up = up_to()
                if cur_up[0] == 'exc' or (cur_up[0] == 'ok' and base_up[0] == 'ok' and cur_up != base_up):
                    ctx.fail(f'snapshot/flatten_up_to/{a}', f'after action {i} ({a}): {cur_up[:2]!r} (at creation {base_up[0]})')
                    break
                for getter in ('paths', 'accessors', 'entries', 'children'):
                    if getattr(spec, getter)() is getattr(spec, getter)():
                        ctx.fail(f'fresh_list/{getter}', 'same list object returned twice')
        finally:
            if other_registered:
                U.unregister(vcls, vns)
                unregistered = True
            if unregistered:
                U.register_again(vcls, vns)

    # ------------------------------------------------------------------ (1b) an operation that *fails* leaves its operand alone
    def failed_operations(self, case, cfg, ctx):
        """the generated tree under a dict whose keys tick (hash / eq / lt / repr): every treespec operation is
        made to fail at its 1st, 2nd, ... user callback; afterwards the operand treespec is observed again"""
        kw = gen.kw(cfg)
        inner = gen.build(case['t'])
        tree = {U.FK(2): inner, U.FK(0): [1, None], U.FK(1): (2,)}
        U.TICK.reset()
        with gen.ModeCtx(cfg):
            spec = optree.tree_structure(tree, **kw)
            twin = optree.tree_structure({U.FK(1): (2,), U.FK(2): gen.build(case['t']), U.FK(0): [1, None]}, **kw)
        obs0 = full_observe(spec)
        toks = list(range(spec.num_leaves))
        ops = {'repr': lambda: repr(spec), 'str': lambda: str(spec), 'hash': lambda: hash(spec), 'eq': lambda: spec == twin,
               'is_prefix': lambda: spec.is_prefix(twin), 'le': lambda: twin <= spec,
               'broadcast': lambda: spec.broadcast_to_common_suffix(twin), 'unflatten': lambda: spec.unflatten(toks),
               'flatten_up_to': lambda: spec.flatten_up_to({U.FK(0): [1, None], U.FK(1): (2,), U.FK(2): inner}),
               'compose': lambda: spec.compose(twin), 'paths': lambda: spec.paths(), 'entries': lambda: spec.entries(),
               'pickle': lambda: pickle.loads(pickle.dumps(spec)), 'deepcopy': lambda: copy.deepcopy(spec)}
        failed = 0
        for name, op in ops.items():
            for k in (1, 2, 3, 5, 8):
                U.TICK.arm(k)
                try:
                    op()
                    raised = False
                except U.Boom:
                    raised = True
                except Exception:  # noqa: BLE001  (what the failure turns into is C15's business)
                    raised = True
                finally:
                    U.TICK.reset()
                if not raised:
                    break
                failed += 1
                d = obs_diff(full_observe(spec), obs0)
                if d:
                    ctx.fail(f'failed_op/{name}', f'k={k}: {d}')
                    break
        if failed:
            ctx.label('failed_operations')
        ctx.extra_cov['failed_operations'] = ctx.extra_cov.get('failed_operations', 0) + failed

    # ------------------------------------------------------------------ (2) inputs untouched by every operation
    def inputs_untouched(self, case, cfg, ctx):
        kw = gen.kw(cfg)
        tree = gen.build(case['t'])
        other = gen.build(case['t'])
        mis = gen.build(case.get('u', case['t']))
        with gen.ModeCtx(cfg):
            leaves, spec = optree.tree_flatten(tree, **kw)
            mspec = optree.tree_structure(mis, **kw)
            leaves_copy = list(leaves)
            s_tree, s_other, s_mis = snapshot(tree), snapshot(other), snapshot(mis)
            o_spec = full_observe(spec)
            o_mspec = full_observe(mspec)
            ident = lambda x, *r: x  # noqa: E731
            n = spec.num_leaves
            leafspec = optree.treespec_leaf(none_is_leaf=cfg['nil'])
            ops = {
                'tree_flatten': lambda: optree.tree_flatten(tree, **kw),
                'tree_flatten_with_path': lambda: optree.tree_flatten_with_path(tree, **kw),
                'tree_flatten_with_accessor': lambda: optree.tree_flatten_with_accessor(tree, **kw),
                'tree_leaves': lambda: optree.tree_leaves(tree, **kw),
                'tree_iter': lambda: list(optree.tree_iter(tree, **kw)),
                'tree_structure': lambda: optree.tree_structure(tree, **kw),
                'tree_paths': lambda: optree.tree_paths(tree, **kw),
                'tree_accessors': lambda: optree.tree_accessors(tree, **kw),
                'tree_is_leaf': lambda: optree.tree_is_leaf(tree, **kw),
                'all_leaves': lambda: optree.all_leaves(leaves, **kw),
                'tree_unflatten': lambda: optree.tree_unflatten(spec, leaves),
                'tree_map': lambda: optree.tree_map(ident, tree, other, **kw),
                'tree_map_': lambda: optree.tree_map_(ident, tree, other, **kw),
                'tree_map_with_path': lambda: optree.tree_map_with_path(lambda p, x, y: x, tree, other, **kw),
                'tree_map_with_accessor': lambda: optree.tree_map_with_accessor(lambda a, x: x, tree, **kw),
                'tree_replace_nones': lambda: optree.tree_replace_nones(0, tree, namespace=cfg['ns']),
                'tree_broadcast_prefix': lambda: optree.tree_broadcast_prefix(tree, other, **kw),
                'broadcast_prefix': lambda: optree.broadcast_prefix(tree, other, **kw),
                'tree_broadcast_common': lambda: optree.tree_broadcast_common(tree, other, **kw),
                'broadcast_common': lambda: optree.broadcast_common(tree, other, **kw),
                'tree_broadcast_map': lambda: optree.tree_broadcast_map(ident, tree, other, **kw),
                'tree_reduce': lambda: optree.tree_reduce(lambda a, b: a, tree, 0, **kw),
                'tree_all': lambda: optree.tree_all(tree, **kw),
                'tree_any': lambda: optree.tree_any(tree, **kw),
                'tree_transpose_map': lambda: n and optree.tree_transpose_map(lambda x: (x, x), tree, **kw),
                'prefix_errors': lambda: optree.prefix_errors(tree, other, **kw),
                'tree_flatten_one_level': lambda: optree.tree_flatten_one_level(tree, **kw) if not optree.tree_is_leaf(tree, **kw) else None,
                'spec.unflatten': lambda: spec.unflatten(leaves),
                'spec.flatten_up_to': lambda: spec.flatten_up_to(other),
                'spec.compose': lambda: spec.compose(spec),
                'spec.transform': lambda: spec.transform(lambda s: s, lambda s: leafspec),
                'spec.broadcast_to_common_suffix': lambda: spec.broadcast_to_common_suffix(spec),
                'spec.traverse': lambda: spec.traverse(leaves, lambda x: x, lambda x: x),
                'spec.walk': lambda: spec.walk(leaves, lambda t, d, c: c, lambda x: x),
                'spec.is_prefix': lambda: (spec.is_prefix(spec), spec <= spec, spec == spec, spec < spec),
                'spec.inspect': lambda: (spec.paths(), spec.accessors(), spec.entries(), spec.children(), spec.one_level(),
                                         repr(spec), hash(spec), len(spec)),
                # mismatching operands (error paths must not touch their operands either)
                'mismatch/broadcast_to_common_suffix': lambda: spec.broadcast_to_common_suffix(mspec),
                'mismatch/broadcast_to_common_suffix_rev': lambda: mspec.broadcast_to_common_suffix(spec),
                'mismatch/is_prefix': lambda: (spec.is_prefix(mspec), mspec.is_prefix(spec), spec == mspec, spec < mspec, spec >= mspec),
                'mismatch/flatten_up_to': lambda: spec.flatten_up_to(mis),
                'mismatch/flatten_up_to_rev': lambda: mspec.flatten_up_to(tree),
                'mismatch/tree_map': lambda: optree.tree_map(ident, tree, mis, **kw),
                'mismatch/tree_broadcast_common': lambda: optree.tree_broadcast_common(tree, mis, **kw),
                'mismatch/tree_broadcast_prefix': lambda: optree.tree_broadcast_prefix(mis, tree, **kw),
                'mismatch/prefix_errors': lambda: optree.prefix_errors(tree, mis, **kw),
                'mismatch/compose': lambda: spec.compose(mspec),
                'mismatch/from_collection': lambda: optree.treespec_from_collection([spec, mspec], none_is_leaf=cfg['nil'], namespace=cfg['ns']),
                'pickle': lambda: pickle.loads(pickle.dumps(spec)),
                'copy': lambda: (copy.copy(spec), copy.deepcopy(spec)),
                'treespec_from_collection': lambda: optree.treespec_from_collection([spec, spec], none_is_leaf=cfg['nil'], namespace=cfg['ns']),
                'treespec_tuple': lambda: optree.treespec_tuple([spec, spec], none_is_leaf=cfg['nil'], namespace=cfg['ns']),
                'treespec_dict': lambda: optree.treespec_dict({'a': spec}, none_is_leaf=cfg['nil'], namespace=cfg['ns']),
            }
            for name, fn in ops.items():
                try:
                    fn()
                except Exception:  # noqa: BLE001
                    pass   # legality is other properties' business; mutation is ours
                if snapshot(tree) != s_tree or snapshot(other) != s_other or snapshot(mis) != s_mis:
                    ctx.fail(f'input_mutated/{name}', 'an input tree was modified')
                    return
                if len(leaves) != len(leaves_copy) or any(a is not b for a, b in zip(leaves, leaves_copy)):
                    ctx.fail(f'leaves_mutated/{name}', 'the leaf list passed in was modified')
                    return
                d = obs_diff(full_observe(spec), o_spec) or obs_diff(full_observe(mspec), o_mspec)
                if d:
                    ctx.fail(f'spec_mutated/{name}', d)
                    return
            ctx.label('ops_table_run')

    # ------------------------------------------------------------------ (3) no reference to the leaves
    def leaves_released(self, case, cfg, ctx):
        kw = gen.kw(cfg)

        def make():
            tree = gen.build(case['t'])
            with gen.ModeCtx(cfg):
                leaves, spec = optree.tree_flatten(tree, **kw)
            refs = [weakref.ref(x) for x in leaves if type(x) is U.Leaf]
            return spec, refs

        spec, refs = make()
        gc.collect()
        alive = [r() for r in refs if r() is not None]
        if alive:
            ctx.fail('spec_keeps_leaves_alive', f'{len(alive)} of {len(refs)} leaves still alive: {alive[:3]!r}')

        # the same after the treespec was *used*: rebuilding trees from it (unflatten, tree_map, traverse) and dropping
        # them again leaves nothing behind that keeps the leaves alive
        def make_and_use():
            tree = gen.build(case['t'])
            with gen.ModeCtx(cfg):
                leaves, sp = optree.tree_flatten(tree, **kw)
                try:
                    rebuilt = sp.unflatten(leaves)
                    mapped = optree.tree_map(lambda x: x, tree, **kw)
                    walked = sp.traverse(leaves)
                    up = sp.flatten_up_to(rebuilt)
                    del rebuilt, mapped, walked, up
                except Exception:  # noqa: BLE001   (e.g. a partial whose args tuple the predicate made a leaf)
                    pass
            return sp, [weakref.ref(x) for x in leaves if type(x) is U.Leaf]

        spec2, refs2 = make_and_use()
        gc.collect()
        alive = [r() for r in refs2 if r() is not None]
        if alive:
            ctx.fail('leaves_alive_after_use', f'{len(alive)} of {len(refs2)} leaves still alive after unflatten / tree_map / traverse: {alive[:3]!r}')
        del spec2
        if refs:
            ctx.label('weakref_leaves')
        repr(spec)

    # ------------------------------------------------------------------ (4) reference cycles are collected
    def cycles(self, case, cfg, ctx):
        class Holder:
            pass

        class KeyObj:
            def __init__(self, n):
                self.n = n

            def __hash__(self):
                return hash(('KeyObj', self.n))

            def __eq__(self, other):
                return isinstance(other, KeyObj) and other.n == self.n

            def __lt__(self, other):
                return self.n < other.n

        def scenario(kind):
            inner = gen.build(case['t'])
            h = Holder()
            if kind == 'metadata':
                tree = [inner, U.CG(U.Leaf(1), tag=h)]
            elif kind == 'dict_key':
                k = KeyObj(1)
                k.holder = h
                tree = {'inner': 0, 'z': {k: U.Leaf(2), KeyObj(2): inner}}
                tree = [tree['z']]
            elif kind == 'custom_entries':
                e = EntryObj('e0')
                e.holder = h
                tree = [inner, CE([U.Leaf(4), inner], [e, EntryObj('e1')])]
                spec = optree.tree_structure(tree, none_is_leaf=cfg['nil'], namespace='c14ns')
                h.spec = spec
                h.paths = spec.paths()
                return weakref.ref(h)
            else:   # namedtuple-less: defaultdict factory object
                f = Holder()
                f.holder = h
                f.__class__ = type('Factory', (Holder,), {'__call__': lambda self: 0})
                tree = [inner, defaultdict(f, a=U.Leaf(3))]
            spec = optree.tree_structure(tree, none_is_leaf=cfg['nil'], namespace=cfg['ns'])
            h.spec = spec             # the cycle: spec -> metadata/key/factory -> holder -> spec
            h.children = spec.children()
            return weakref.ref(h)

        for kind in ('metadata', 'dict_key', 'custom_entries', 'factory'):
            r = scenario(kind)
            gc.collect()
            if r() is not None:
                ctx.fail(f'cycle_not_collected/{kind}', 'a treespec in a reference cycle through its ' + kind + ' was not reclaimed')
        ctx.label('cycles_checked')


PROP = C14()
if __name__ == '__main__':
    runner.main(PROP)
