"""C09  broadcasting replicates prefix leaves onto the matching positions (reference lub + laws)."""
from __future__ import annotations

import optree
from hypothesis import strategies as st

from vlib import compare, gen, model, runner
from vlib import universe as U
from vlib.props.c07 import PREFIX_PREDICATES

LEAF = st.integers(0, 99).map(lambda n: ['L', n])


@st.composite
def cases(draw, ml):
    kinds = None
    base = draw(gen.tree_descs(ml, leaf=LEAF, kinds=kinds))
    sub = gen.tree_descs(4, max_depth=2, leaf=LEAF, min_leaves=2)
    n = draw(st.sampled_from([2, 2, 3]))
    trees, rels = [], []
    if draw(st.integers(0, 5)) == 0:
        # stratum: nested dict skeleton, both operands extended differently, second operand re-ordered
        # with the SAME dict kinds (OrderedDict vs OrderedDict, dict vs dict in insertion mode)
        base = draw(gen.nested_dict_descs())
        if draw(st.booleans()):
            root, refs = gen._node_refs(base)
            for c, i in refs:
                if c[i][0] in ('dict', 'dd'):
                    c[i] = ['od', c[i][1] if c[i][0] == 'dict' else c[i][2], []]
            base = root[0]
        nl = gen.count_leaves(base)
        mask = [draw(st.sampled_from([0, 1, 2, 3])) for _ in range(nl)]
        subs = [draw(sub) for _ in range(nl)]
        ta = gen.substitute_masked(draw, base, subs, mask, 1)
        tb = gen.order_variant(draw, gen.substitute_masked(draw, base, subs, mask, 2))
        return {'trees': [ta, tb], 'rels': ['split_a', 'split_b_reordered'],
                'cfg': draw(gen.configs(predicates=PREFIX_PREDICATES))}
    if draw(st.integers(0, 5)) == 0:
        ta, tb, e = gen.targeted_near_miss(draw, ml, leaf=LEAF)
        return {'trees': [ta, tb], 'rels': ['base', f'conflict:{e}'], 'cfg': draw(gen.configs(predicates=PREFIX_PREDICATES))}
    if draw(st.booleans()):
        # stratum: both operands extend the base at (partly) different leaf positions
        base = draw(gen.tree_descs(ml, leaf=LEAF, min_leaves=min(3, ml)))
        nl = gen.count_leaves(base)
        mask = [draw(st.sampled_from([0, 1, 2, 3])) for _ in range(nl)]
        if nl >= 2:
            mask[draw(st.integers(0, nl - 1))] |= 1
            j = draw(st.integers(0, nl - 1))
            mask[j] = (mask[j] | 2) if mask[j] != 1 or nl == 1 else mask[j]
            if not any(x == 2 or x == 3 for x in mask):
                mask[(mask.index(1) + 1) % nl] = 2
        subs = [draw(sub) for _ in range(nl)]
        ta = gen.substitute_masked(draw, base, subs, mask, 1)
        tb = gen.substitute_masked(draw, base, subs, mask, 2)
        v = draw(st.integers(0, 2))
        if v == 1:
            tb = gen.dict_variant(draw, tb)
        elif v == 2:
            tb = gen.order_variant(draw, tb)       # same dict kinds, other key order
        trees, rels = [ta, tb], ['split_a', 'split_b']
    for i in range(n - len(trees)):
        rel = draw(st.sampled_from(['base', 'ext', 'ext', 'ext_variant', 'conflict']))
        t = base
        if rel != 'base':
            t = gen.substitute_leaves(draw, base, sub, at_least_one=True, none_too=draw(st.booleans()))
        if rel == 'ext_variant':
            t = gen.dict_variant(draw, t)
        if rel == 'conflict':
            t, e = gen.near_miss(draw, t)
            rel = f'conflict:{e}'
        trees.append(t)
        rels.append(rel)
    cfg = draw(gen.configs(predicates=PREFIX_PREDICATES))
    if n == 3 and draw(st.booleans()):
        cfg = dict(cfg, pred=draw(st.sampled_from(['tuple2', 'anydict_has_a', 'is_cg', 'is_nt2'])))   # n-ary law under a predicate
    return {'trees': trees, 'rels': rels, 'cfg': cfg}


class C09(runner.Prop):
    ID = 'C09'
    LEVEL = 'exploration'
    RULE = ('generated pairs / triples derived from one base tree by independent leaf substitutions (partially overlapping), '
            'dict kind/order variation and one-edit conflicts, all node kinds incl. custom nodes with explicit entries, x cfg '
            'with structure-determined predicates; non-trivial = both operands contribute >=1 extension, or a conflict; '
            'distinct = sha1(case)')
    ASSUMPTIONS = [
        'reference = model.spec_lub / model.broadcast_tree; dict nodes are compared key-aligned (each operand keeps its own key order)',
        'predicates restricted to structure-determined ones (sentinel-filled intermediate trees must classify like the originals)',
    ]
    tree_keys = ()

    def budget(self, tier):
        return 600 if tier == 'quick' else 8000

    def strategy(self, tier):
        return cases(8 if tier == 'quick' else 14)

    def shrink_extra(self, case):
        from vlib.runner import shrink_candidates
        for i in range(len(case['trees'])):
            if len(case['trees']) > 2:
                c = dict(case)
                c['trees'] = case['trees'][:i] + case['trees'][i + 1:]
                c['rels'] = case['rels'][:i] + case['rels'][i + 1:]
                yield c
            for cand in shrink_candidates(case['trees'][i]):
                c = dict(case)
                c['trees'] = list(case['trees'])
                c['trees'][i] = cand
                yield c

    def check_case(self, case, ctx):
        cfg = gen.sound_cfg({'cfg': case['cfg'], 'x': case['trees']})
        kw = gen.kw(cfg)
        trees = [gen.build(t) for t in case['trees']]
        m = model.Model.from_cfg(cfg)
        m0 = model.Model(cfg['nil'], cfg['ns'], None, gen.insertion_mode(cfg))
        with gen.ModeCtx(cfg):
            mss = [m.structure(t) for t in trees]
            a, b = trees[0], trees[1]
            msa, msb = mss[0], mss[1]
            try:
                L = model.spec_lub(msa, msb)
                conflict = False
            except model.Conflict:
                L, conflict = None, True
            both_extend = (not conflict and L.num_nodes() > msa.num_nodes() and L.num_nodes() > msb.num_nodes())
            ctx.nontrivial(conflict or both_extend)
            ctx.label('conflict' if conflict else 'compatible')
            if both_extend:
                ctx.label('both_extend')
            A, B = optree.tree_structure(a, **kw), optree.tree_structure(b, **kw)
            # ---- spec level
            try:
                S = A.broadcast_to_common_suffix(B)
                got_conflict = False
            except ValueError:
                S, got_conflict = None, True
            except Exception as e:  # noqa: BLE001
                ctx.fail('common_suffix/wrong_exception', f'{type(e).__name__}: {e}')
                return
            if got_conflict != conflict:
                ctx.fail('common_suffix/conflict_vs_model', f'engine conflict={got_conflict} model={conflict}; A={A} B={B}')
                return
            if not conflict:
                r = compare.spec_vs_model(S, L)
                if r:
                    ctx.fail('common_suffix/shape_vs_lub', f'{r}; A={A} B={B} S={S}')
                if not compare.paths_same(S.paths(), model.paths_of(L)):
                    ctx.fail('common_suffix/paths', f'{S.paths()!r} vs model {model.paths_of(L)!r}')
                accs = S.accessors()
                if not compare.paths_same([x.path for x in accs], model.paths_of(L)):
                    ctx.fail('common_suffix/accessor_paths', f'{[x.path for x in accs]!r}')
                if gen.contains_tag(case['trees'][0], ('cn', 'cs', 'cm', 'cp', 'dc', 'partial')):
                    ctx.label('custom_entries_in_operand')
                # the result carries the operands' flags: a namespace recorded by either operand, their none_is_leaf
                if S.namespace != (A.namespace or B.namespace) or S.none_is_leaf != A.none_is_leaf:
                    ctx.fail('common_suffix/attributes', f'namespace {S.namespace!r} none_is_leaf {S.none_is_leaf}; '
                                                         f'A: {A.namespace!r} {A.none_is_leaf} B: {B.namespace!r}')
                # S keeps the receiver's own node types and key order (and the argument's below the receiver's
                # leaves): an order-aware comparison of what S rebuilds with what the model's lub rebuilds
                marks = [U.Leaf(i) for i in range(S.num_leaves)]
                try:
                    d = model.same_tree(S.unflatten(marks), model.rebuild(L, iter(marks)))
                    if d:
                        ctx.fail('common_suffix/rebuilds_receiver_order', f'{d}; A={A} B={B} S={S}')
                    amarks = [U.Leaf(i) for i in range(A.num_leaves)]   # a leaf of A over a None node of B: S may have fewer leaves than A
                    d = model.same_tree(A.broadcast_to_common_suffix(A).unflatten(amarks), A.unflatten(amarks))
                    if d:
                        ctx.fail('common_suffix/idempotent_order', f'{d}; A={A}')
                except Exception as e:  # noqa: BLE001
                    ctx.fail('common_suffix/unflatten_raises', f'{type(e).__name__}: {e}; A={A} B={B} S={S}')
                # least: both are prefixes of S
                if not (A <= S and B <= S):
                    ctx.fail('common_suffix/upper_bound', f'A={A} B={B} S={S}')
                # symmetric up to dict kind / order
                S2 = B.broadcast_to_common_suffix(A)
                if not (S <= S2 and S2 <= S):
                    ctx.fail('common_suffix/symmetric', f'S={S} S2={S2}')
                # idempotent
                if not (A.broadcast_to_common_suffix(A) == A) or not (S.broadcast_to_common_suffix(S) == S):
                    ctx.fail('common_suffix/idempotent', f'A={A}')
                if not (S.broadcast_to_common_suffix(A) == S) or not (S.broadcast_to_common_suffix(B) == S):
                    ctx.fail('common_suffix/absorbs_operands', f'S={S} A={A} B={B}')
                # when one is a prefix of the other the result is the other (up to dict kind/order)
                if model.spec_prefix(msa, msb) and not (S <= B and B <= S):
                    ctx.fail('common_suffix/prefix_case', f'A={A} B={B} S={S}')
            # ---- tree level: tree_broadcast_common / broadcast_common
            try:
                ra, rb = optree.tree_broadcast_common(a, b, **kw)
                got_conflict = False
            except ValueError:
                got_conflict = True
            except Exception as e:  # noqa: BLE001
                ctx.fail('tree_broadcast_common/wrong_exception', f'{type(e).__name__}: {e}')
                return
            if got_conflict != conflict:
                ctx.fail('tree_broadcast_common/conflict_vs_model', f'engine {got_conflict} model {conflict}')
            elif not conflict:
                ea = model.broadcast_tree(msa, L)
                eb = model.broadcast_tree(msb, model.spec_lub(msb, msa))
                for name, got, want in (('first', ra, ea), ('second', rb, eb)):
                    d = model.same_tree(want, got)
                    if d:
                        ctx.fail(f'tree_broadcast_common/{name}', d)
                la, lb = optree.broadcast_common(a, b, **kw)
                wa = optree.tree_leaves(ea, **kw)
                wpaths = optree.tree_paths(ea, **kw)
                wb = [model.navigate(m0, eb, p) for p in wpaths]
                if not compare.same_leaves(la, wa) or not compare.same_leaves(lb, wb):
                    ctx.fail('broadcast_common/leaves', f'{la!r},{lb!r} vs {wa!r},{wb!r}')
            # ---- prefix broadcast (prefix = a, full = b)
            is_pref = model.spec_prefix(msa, msb)
            try:
                rp = optree.tree_broadcast_prefix(a, b, **kw)
                lp = optree.broadcast_prefix(a, b, **kw)
                ok = True
            except ValueError:
                ok = False
            except Exception as e:  # noqa: BLE001
                ctx.fail('broadcast_prefix/wrong_exception', f'{type(e).__name__}: {e}')
                ok = is_pref
            if ok != is_pref:
                ctx.fail('broadcast_prefix/accept_vs_model', f'accepted={ok} model={is_pref}; A={A} B={B}')
            elif ok:
                ctx.label('prefix_broadcast')
                want = model.broadcast_tree(msa, msb)   # a's node types, b's extensions
                d = model.same_tree(want, rp)
                if d:
                    ctx.fail('tree_broadcast_prefix/result', d)
                if not compare.same_leaves(lp, optree.tree_leaves(want, **kw)):
                    ctx.fail('broadcast_prefix/leaves', f'{lp!r}')
                # every leaf equals the unique prefix leaf whose path is a prefix of its path
                aleaves, apaths, _ = m.flatten(a)
                for leaf, p in zip(optree.tree_leaves(rp, **kw), optree.tree_paths(rp, **kw)):
                    owners = [al for al, ap in zip(aleaves, apaths) if compare.path_same(tuple(p)[:len(ap)], tuple(ap))]
                    if len(owners) != 1 or owners[0] is not leaf:
                        ctx.fail('tree_broadcast_prefix/owner', f'path {p!r}: {leaf!r} owners {owners!r}')
                        break
            # ---- n-ary map
            self.broadcast_map(trees, mss, kw, m0, ctx)

    def broadcast_map(self, trees, mss, kw, m0, ctx):
        try:
            L = mss[0]
            for s in mss[1:]:
                L = model.spec_lub(L, s)
            conflict = False
        except model.Conflict:
            conflict = True
        ctx.label(f'map_arity={len(trees)}')
        for name, fn, extra in (('tree_broadcast_map', optree.tree_broadcast_map, None),
                                ('tree_broadcast_map_with_path', optree.tree_broadcast_map_with_path, 'path'),
                                ('tree_broadcast_map_with_accessor', optree.tree_broadcast_map_with_accessor, 'acc')):
            log = []

            def f(*xs):
                log.append(xs)
                return len(log)

            try:
                out = fn(f, *trees, **kw)
                got_conflict = False
            except ValueError:
                got_conflict = True
            except Exception as e:  # noqa: BLE001
                ctx.fail(f'{name}/wrong_exception', f'{type(e).__name__}: {e}')
                continue
            if got_conflict != conflict:
                ctx.fail(f'{name}/conflict_vs_model', f'engine {got_conflict} model {conflict}')
                continue
            if conflict:
                continue
            exp = [model.broadcast_tree(s, _lub_from(s, L)) for s in mss]
            paths = optree.tree_paths(exp[0], **kw)
            leaves0 = optree.tree_leaves(exp[0], **kw)
            want = [(leaves0[i], *[model.navigate(m0, e, p) for e in exp[1:]]) for i, p in enumerate(paths)]
            if len(log) != len(want):
                ctx.fail(f'{name}/call_count', f'{len(log)} vs {len(want)}')
                continue
            for i, (g, w) in enumerate(zip(log, want)):
                if extra == 'path':
                    if not compare.path_same(tuple(g[0]), tuple(paths[i])):
                        ctx.fail(f'{name}/path_arg', f'{g[0]!r} vs {paths[i]!r}')
                    g = g[1:]
                elif extra == 'acc':
                    if not compare.path_same(g[0].path, tuple(paths[i])):
                        ctx.fail(f'{name}/accessor_arg', f'{g[0]!r} vs {paths[i]!r}')
                    g = g[1:]
                if len(g) != len(w) or any(x is not y for x, y in zip(g, w)):
                    ctx.fail(f'{name}/args', f'call {i}: {g!r} vs {w!r}')
                    break
            d = model.same_tree(optree.tree_map(lambda x: 0, exp[0], **kw), optree.tree_map(lambda x: 0, out, **kw),
                                leaf_eq=lambda x, y: x == y)
            if d:
                ctx.fail(f'{name}/result_structure', d)


def _lub_from(s, L):
    """L re-expressed from the point of view of operand s (s's own node types / key order)"""
    return model.spec_lub(s, L)


PROP = C09()
if __name__ == '__main__':
    runner.main(PROP)
