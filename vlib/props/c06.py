"""C06  treespec equality means same structure, and equal treespecs hash equally."""
from __future__ import annotations

import copy
import pickle

import optree
from hypothesis import strategies as st

from vlib import gen, model, runner
from vlib import universe as U

ROUTES = ('flatten', 'pickle', 'collection', 'transform_id', 'compose_leaf', 'self_broadcast', 'copy', 'deepcopy', 'with_path',
          'child_of_wrapper', 'children_of_wrapper', 'leaf_compose')


def releaf(draw, desc):
    root, refs = gen._node_refs(copy.deepcopy(desc))
    for c, i in refs:
        if c[i][0] in gen.LEAF_TAGS:
            c[i] = draw(gen.leaf_descs())
    return root[0]


@st.composite
def cases(draw, ml):
    mode = draw(st.sampled_from(list(gen.PAIR_MODES) + ['releaf', 'releaf', 'same', 'same']))
    if mode == 'releaf':
        a = draw(gen.tree_descs(ml))
        p = {'a': a, 'b': releaf(draw, a), 'rel': 'releaf', 'edit': None}
    else:
        p = draw(gen.pair_descs(ml, modes=(mode,)))
    preds = gen.STRUCTURAL_PREDICATES
    cfga = draw(gen.configs(predicates=preds))
    if draw(st.integers(0, 2)):
        cfgb = dict(cfga)
        k = draw(st.sampled_from(['same', 'same', 'ns', 'ns', 'nil', 'mode']))
        if k == 'ns':
            cfgb['ns'] = draw(st.sampled_from(['', U.NS, U.NS_UNKNOWN]))
        elif k == 'nil':
            cfgb['nil'] = not cfga['nil']
        elif k == 'mode':
            cfgb['mode'] = draw(st.sampled_from(['sorted', 'ins_global', 'ins_ns']))
    else:
        cfgb = draw(gen.configs(predicates=preds))
    if draw(st.integers(0, 7)) == 0 and gen.contains_tag(p['a'], ('dd',)):
        # stratum: a defaultdict factory that cannot be hashed => hash(spec) must raise, every time
        for key in ('a', 'b'):
            root, refs = gen._node_refs(copy.deepcopy(p[key]))
            for c, i in refs:
                if c[i][0] == 'dd':
                    c[i][1] = 'unhashable'
                    c[i][3] = [op for op in c[i][3] if op[0] != 'auto']
            p[key] = root[0]
        p['unhashable'] = True
    return dict(p, cfga=cfga, cfgb=cfgb, ra=draw(st.sampled_from(ROUTES)), rb=draw(st.sampled_from(ROUTES)))


def spec_via(route, tree, cfg, m):
    """obtain the treespec of `tree` under cfg through a construction route"""
    kw = gen.kw(cfg)
    with gen.ModeCtx(cfg):
        spec = optree.tree_structure(tree, **kw)
        if route == 'flatten':
            return spec
        if route == 'with_path':
            return optree.tree_flatten_with_path(tree, **kw)[2]
        if route == 'child_of_wrapper':
            return optree.tree_structure([0, [tree], 1], **kw).child(1).child(0)      # (lists: no predicate of the family fires on them)
        if route == 'children_of_wrapper':
            return optree.tree_structure([tree, 0, 0], **kw).children()[0]
        if route == 'pickle':
            return pickle.loads(pickle.dumps(spec))
        if route == 'transform_id':
            return spec.transform(lambda s: s, lambda s: s)
        if route == 'compose_leaf':
            return spec.compose(optree.treespec_leaf(none_is_leaf=cfg['nil']))
        if route == 'leaf_compose':
            return optree.treespec_leaf(none_is_leaf=cfg['nil']).compose(spec)
        if route == 'self_broadcast':
            return spec.broadcast_to_common_suffix(spec)
        if route == 'copy':
            return copy.copy(spec)
        if route == 'deepcopy':
            return copy.deepcopy(spec)
        if route == 'collection':
            node = m.one_level(tree)
            if node is None or node.kind == 'none' or node.type.__name__ == 'partial':
                return spec   # (partial destructures its children: it cannot hold treespecs)
            kids = spec.children()
            shell = model.MS(node.kind, node.type, [model.MS('leaf')] * len(kids), node.entries,
                             node.meta, node.orig_keys, node.reg)
            coll = model.rebuild(shell, iter(kids))
            return optree.treespec_from_collection(coll, none_is_leaf=cfg['nil'], namespace=cfg['ns'])
    raise AssertionError(route)


class C06(runner.Prop):
    ID = 'C06'
    LEVEL = 'exploration'
    RULE = ('generated pairs (same / releafed / suffix / one-edit near miss / dict kind+order variant / unrelated) x '
            'option pairs (none_is_leaf, namespace, dict-order mode, structural predicates) x 9 construction routes; '
            'non-trivial = the pair differs in exactly one attribute (near miss / one option) or is an equal pair built '
            'through two different routes or namespaces; distinct = sha1(case)')
    ASSUMPTIONS = [
        'expected equality = same none_is_leaf, compatible namespaces (read from the public .namespace) and model.spec_eq of the two model structures',
        'predicates restricted to structure-determined ones so that both sides classify by shape only',
        'custom metadata compared with == (as documented)',
    ]
    tree_keys = ('a', 'b')

    def budget(self, tier):
        return 800 if tier == 'quick' else 10000

    def strategy(self, tier):
        return cases(10 if tier == 'quick' else 18)

    def check_case(self, case, ctx):
        cfga = gen.sound_cfg({'cfg': case['cfga'], 'a': case['a']})
        cfgb = gen.sound_cfg({'cfg': case['cfgb'], 'b': case['b']})
        ta, tb = gen.build(case['a']), gen.build(case['b'])
        ma, mb = model.Model.from_cfg(cfga), model.Model.from_cfg(cfgb)
        with gen.ModeCtx(cfga):
            msa = ma.structure(ta)
        with gen.ModeCtx(cfgb):
            msb = mb.structure(tb)
        try:
            A = spec_via(case['ra'], ta, cfga, ma)
            B = spec_via(case['rb'], tb, cfgb, mb)
        except Exception as e:  # noqa: BLE001
            ctx.fail('route/raises', f'{case["ra"]}/{case["rb"]}: {type(e).__name__}: {e}')
            return
        # a route must not change what the flatten route records (namespace, none_is_leaf): the expected
        # compatibility below is computed from the *flatten* route's namespaces, not from the routed specs' own
        FA, FB = spec_via('flatten', ta, cfga, ma), spec_via('flatten', tb, cfgb, mb)
        expected_ns = {'a': FA.namespace, 'b': FB.namespace}
        for name, R, F, msR in (('a', A, FA, msa), ('b', B, FB, msb)):
            if case['r' + name] == 'collection' and R.namespace == '' and R.none_is_leaf == F.none_is_leaf \
                    and not any(n.kind == 'custom' for n in msR.walk()):
                # flatten tags a treespec with the namespace also when only the namespace's insertion-ordered mode (no
                # custom node) made it relevant; the constructors do not - observed on the unchanged tree, and equality
                # treats '' as compatible with every namespace, so the property is not concerned
                ctx.label('constructor_without_mode_namespace_tag')
                expected_ns[name] = ''        # ... and that untagged treespec is what takes part in the comparison
                continue
            if R.namespace != F.namespace or R.none_is_leaf != F.none_is_leaf:
                ctx.fail('route/attributes', f'{case["r" + name]}: namespace {R.namespace!r} none_is_leaf {R.none_is_leaf} '
                                             f'vs flatten route {F.namespace!r} {F.none_is_leaf}; spec={R}')
        ns_ok = (not expected_ns['a']) or (not expected_ns['b']) or expected_ns['a'] == expected_ns['b']
        want = cfga['nil'] == cfgb['nil'] and ns_ok and model.spec_eq(msa, msb)
        got = (A == B)
        ctx.label('equal' if want else 'unequal', f'rel:{case["rel"]}')
        one_attr = case['rel'] == 'near_miss' or sum(cfga[k] != cfgb[k] for k in cfga) == 1
        ctx.nontrivial(one_attr or (want and (case['ra'] != case['rb'] or A.namespace != B.namespace)))
        if want and A.namespace != B.namespace:
            ctx.label('equal_across_namespaces')
        if want and case['ra'] != case['rb']:
            ctx.label('equal_across_routes')
        if got != want:
            ctx.fail('eq_vs_model', f'A={A} B={B}: == is {got}, model says {want}')
        if (B == A) != got:
            ctx.fail('symmetric', f'A={A} B={B}')
        if (A != B) == got or (B != A) == got:
            ctx.fail('ne_negation', f'A={A} B={B}')
        if not (A == A) or (A != A) or not (B == B):
            ctx.fail('reflexive', f'A={A}')
        if case.get('unhashable'):
            # hashing must fail (TypeError) on every attempt, never return a value
            for S, msS in ((A, msa), (B, msb), (A, msa)):
                expect_raise = any(n.kind == 'dd' and n.meta is U.UNHASHABLE_FACTORY for n in msS.walk())
                for attempt in (1, 2):
                    try:
                        hv = hash(S)
                        if expect_raise:
                            ctx.fail('hash/unhashable_metadata_returned', f'attempt {attempt}: hash={hv} for {S}')
                    except TypeError:
                        if not expect_raise:
                            ctx.fail('hash/raises', f'unexpected TypeError for {S}')
                    except Exception as e:  # noqa: BLE001
                        ctx.fail('hash/raises', f'{type(e).__name__}: {e}')
            ctx.label('unhashable_factory')
            return
        try:
            ha, hb = hash(A), hash(B)
        except Exception as e:  # noqa: BLE001
            ctx.fail('hash/raises', f'{type(e).__name__}: {e}')
            return
        if got and ha != hb:
            ctx.fail('eq_implies_hash', f'A={A!r} (ns={A.namespace!r}) B={B!r} (ns={B.namespace!r})')
        if got:
            if B not in {A} or {A: 1}.get(B) != 1:
                ctx.fail('set_membership', f'A={A} B={B}')
        if hash(A) != ha:
            ctx.fail('hash/stable', '')
        # a third spec through another route: transitivity inside one namespace
        C = spec_via('pickle' if case['ra'] != 'pickle' else 'deepcopy', ta, cfga, ma)
        if not (A == C) or hash(A) != hash(C):
            ctx.fail('route_independence', f'{case["ra"]}: A={A} C={C}')
        if got and A.namespace == B.namespace == C.namespace and not (C == B):
            ctx.fail('transitive', f'A={A} B={B} C={C}')


PROP = C06()
if __name__ == '__main__':
    runner.main(PROP)
