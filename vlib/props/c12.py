"""C12  registry changes are namespace-isolated, atomic and reversible (model-based history testing:
exhaustive short histories + generated longer ones; observation after every step)."""
from __future__ import annotations

import itertools
import os
import time
import warnings
from collections import OrderedDict, defaultdict, deque, namedtuple

import optree
from hypothesis import strategies as st

from vlib import runner

GLOBAL = optree.registry.__GLOBAL_NAMESPACE
K = optree.PyTreeKind
OBS_NS = ('', 'a', 'b', 'zz')
NS_ARG = {'G': GLOBAL, 'a': 'a', 'b': 'b', 'E': ''}
NS_KEY = {'G': '', 'a': 'a', 'b': 'b'}
BUILTINS = {'list': (list, K.LIST, lambda: [1]), 'dict': (dict, K.DICT, lambda: {'k': 1}),
            'tuple': (tuple, K.TUPLE, lambda: (1,)), 'deque': (deque, K.DEQUE, lambda: deque([1])),
            'none': (type(None), K.NONE, lambda: None), 'od': (OrderedDict, K.ORDEREDDICT, lambda: OrderedDict(k=1)),
            'dd': (defaultdict, K.DEFAULTDICT, lambda: defaultdict(int, k=1))}
STRUCTSEQS = {'SS': os.terminal_size, 'SS2': time.struct_time}
CALLS = []


def make_types():
    """fresh classes for one history"""
    class P:
        def __init__(self, v=0):
            self.v = v

        def tree_flatten(self):
            CALLS.append(('cls', type(self)))
            return (self.v,), ('cls', type(self).__name__)

        @classmethod
        def tree_unflatten(cls, meta, ch):
            return cls(*ch)

    class S(P):
        pass

    class NT(namedtuple('NTb', 'x y')):
        def tree_flatten(self):
            CALLS.append(('cls', type(self)))
            return tuple(self), ('cls', type(self).__name__)

        @classmethod
        def tree_unflatten(cls, meta, ch):
            return cls(*ch)

    class D:
        x: int = 0
        y: int = 1

    return {'P': P, 'S': S, 'NT': NT, 'D': D}


def instance(tname, cls):
    if tname in ('P', 'S'):
        o = object.__new__(cls)     # (a dataclass decoration may have replaced __init__)
        o.v = 7
        return o
    if tname == 'NT':
        return tuple.__new__(cls, (1, 2))
    if tname == 'D':
        o = object.__new__(cls)
        o.x, o.y = 3, 4
        return o
    if tname == 'SS':
        return cls((1, 2))
    if tname == 'SS2':
        return cls(tuple(range(9)))
    raise AssertionError(tname)


class Reg:
    """one registration made by the harness"""
    counter = itertools.count()

    def __init__(self, cls, how):
        self.id = next(Reg.counter)
        self.cls, self.how = cls, how
        self.entry = None

        def flatten(o, _s=self):
            CALLS.append(('fn', _s.id))
            return (tuple(o) if isinstance(o, tuple) else (getattr(o, 'v', 0),)), ('fn', _s.id)

        def unflatten(meta, ch):
            return None

        self.flatten, self.unflatten = flatten, unflatten


OPS = ('reg', 'regc', 'regd', 'unreg', 'dc', 'reg_bad_entry',
       'regp',                          # register_pytree_node_class('<namespace>')(cls): namespace as the first positional argument
       'reg_e', 'regc_e', 'regp_e', 'regd_e')     # the same calls with an explicit path_entry_type, which every form must pass through
TYPES = ('P', 'S', 'NT', 'SS', 'SS2', 'D', 'list', 'dict', 'none', 'X')
NSS = ('G', 'a', 'b', 'E')


WEIGHTED_OPS = ('reg',) * 4 + ('unreg',) * 5 + ('regc',) * 2 + tuple(o for o in OPS if o not in ('reg', 'unreg', 'regc'))
WEIGHTED_TYPES = ('P', 'P', 'P', 'S', 'S', 'NT', 'NT', 'D', 'SS', 'SS2', 'list', 'dict', 'none', 'X')


def op_strategy():
    return st.tuples(st.sampled_from(OPS), st.sampled_from(TYPES), st.sampled_from(NSS)).map(list)


@st.composite
def histories(draw):
    """histories concentrated on one namespace and a few types: registrations and unregistrations of *different*
    types meet in the same namespace, the same type is registered / unregistered / re-registered"""
    focus = draw(st.sampled_from(NSS))
    nss = (focus,) * 3 + NSS
    n = draw(st.integers(1, 12))
    return [[draw(st.sampled_from(WEIGHTED_OPS)), draw(st.sampled_from(WEIGHTED_TYPES)), draw(st.sampled_from(nss))] for _ in range(n)]


class C12(runner.Prop):
    ID = 'C12'
    LEVEL = 'fault_enumeration'
    RULE = ('histories of register / register_class (call and decorator form) / unregister / dataclass-register / faulty calls '
            'over fresh plain, subclass, namedtuple-subclass, struct-sequence, built-in and non-class types x namespaces '
            '{GLOBAL, a, b, empty} x warnings filter {default, error}: exhaustive for length <= 2 (quick) / <= 3 (thorough) over a '
            'reduced alphabet, Hypothesis-generated up to 12 steps beyond; after EVERY step the engine and the Python registry are '
            'observed for every type in 4 namespaces x both none_is_leaf; non-trivial = history with a failing step, shadowing, '
            'or unregister followed by re-register; distinct = sha1(history)')
    ASSUMPTIONS = [
        'model = dict[(namespace, type)] -> registration; failing steps leave it unchanged',
        'fresh classes per history keep histories independent; struct sequence types are unregistered again at the end of each history',
    ]
    tree_keys = ()

    def budget(self, tier):
        return 1000 if tier == "quick" else 8000

    def strategy(self, tier):
        return st.fixed_dictionaries({'hist': st.one_of(st.lists(op_strategy(), min_size=1, max_size=12), histories(), histories()),
                                      'warn': st.sampled_from(['default', 'default', 'error'])})

    def shrink_extra(self, case):
        for i in range(len(case['hist'])):
            c = dict(case)
            c['hist'] = case['hist'][:i] + case['hist'][i + 1:]
            if c['hist']:
                yield c
        if case['warn'] != 'default':
            yield dict(case, warn='default')

    # ------------------------------------------------------------------
    def check_case(self, case, ctx):
        types = make_types()
        types.update(STRUCTSEQS)
        model = {}        # (nskey, cls) -> Reg | ('cls', cls) | ('dc', cls)
        decorated = set()
        failing = shadow = rereg = False
        removed = set()
        try:
            for step, (op, tname, ns) in enumerate(case['hist']):
                before = dict(model)
                expect = self.expected_outcome(op, tname, ns, types, model, case['warn'])
                ok, exc = self.apply(op, tname, ns, types, model, decorated, case['warn'])
                if expect is True and not ok:
                    ctx.fail('step/legal_call_failed', f'step {step} {op} {tname} {ns}: {type(exc).__name__}: {exc}')
                elif expect is False and ok:
                    ctx.fail('step/illegal_call_accepted', f'step {step} {op} {tname} {ns}')
                if not ok:
                    failing = True
                    model.clear()
                    model.update(before)
                    if exc is not None and type(exc).__name__ in ('SystemError', 'InternalError'):
                        ctx.fail('step/internal_error', f'step {step} {op} {tname} {ns}: {type(exc).__name__}: {exc}')
                key = (NS_KEY.get(ns), types.get(tname))
                if op == 'unreg' and ok:
                    removed.add(key)
                if ok and op != 'unreg' and key in removed:
                    rereg = True
                for (n1, c1) in model:
                    if n1 != '' and ('', c1) in model:
                        shadow = True
                self.observe(step, (op, tname, ns), types, model, ctx)
        finally:
            self.cleanup(types, model)
        ctx.nontrivial(failing or shadow or rereg)
        ctx.label(f'len={min(len(case["hist"]), 4)}', f'warn={case["warn"]}')
        if failing:
            ctx.label('has_failing_step')
        if shadow:
            ctx.label('shadowing')
        if rereg:
            ctx.label('unregister_then_reregister')

    def apply(self, op, tname, ns, types, model, decorated, warn):
        """perform one operation; returns (succeeded, exception). Updates the model on success."""
        if tname == 'X':
            cls = 5
        elif tname in BUILTINS:
            cls = BUILTINS[tname][0]
        else:
            cls = types[tname]
        nsarg = NS_ARG[ns]
        expected_ok = None
        key = (NS_KEY.get(ns), cls)
        is_class = isinstance(cls, type)
        warns = tname in ('NT', 'SS', 'SS2')
        with warnings.catch_warnings():
            warnings.simplefilter('error' if warn == 'error' else 'ignore')
            try:
                if op in ('reg', 'reg_bad_entry', 'reg_e'):
                    r = Reg(cls, 'fn')
                    kwargs = {'namespace': nsarg}
                    if op == 'reg_bad_entry':
                        kwargs['path_entry_type'] = int
                    if op == 'reg_e':
                        kwargs['path_entry_type'] = r.entry = optree.GetAttrEntry
                    optree.register_pytree_node(cls, r.flatten, r.unflatten, **kwargs)
                    model[key] = r
                elif op == 'regc':
                    optree.register_pytree_node_class(cls, namespace=nsarg)
                    model[key] = ('cls', cls, None)
                elif op == 'regc_e':
                    optree.register_pytree_node_class(cls, path_entry_type=optree.GetAttrEntry, namespace=nsarg)
                    model[key] = ('cls', cls, optree.GetAttrEntry)
                elif op == 'regd':
                    optree.register_pytree_node_class(namespace=nsarg)(cls)
                    model[key] = ('cls', cls, None)
                elif op == 'regd_e':
                    optree.register_pytree_node_class(path_entry_type=optree.GetAttrEntry, namespace=nsarg)(cls)
                    model[key] = ('cls', cls, optree.GetAttrEntry)
                elif op == 'regp':
                    optree.register_pytree_node_class(nsarg)(cls)
                    model[key] = ('cls', cls, None)
                elif op == 'regp_e':
                    optree.register_pytree_node_class(nsarg, path_entry_type=optree.GetAttrEntry)(cls)
                    model[key] = ('cls', cls, optree.GetAttrEntry)
                elif op == 'unreg':
                    optree.unregister_pytree_node(cls, namespace=nsarg)
                    del model[key]
                elif op == 'dc':
                    if tname in STRUCTSEQS:
                        # struct sequence types are mutable heap types: decorating them would rewrite
                        # a stdlib class for the whole process; treated as an (illegal) no-op here
                        raise TypeError('harness: dataclass() is not applied to stdlib struct sequences')
                    import optree.dataclasses as odc
                    new = odc.dataclass(cls, namespace=nsarg)
                    if new is not cls:
                        raise AssertionError('dataclass() returned a different class')
                    decorated.add(cls)
                    model[key] = ('dc', cls)
                return True, None
            except Exception as e:  # noqa: BLE001
                return False, e

    def expected_outcome(self, op, tname, ns, types, model, warn):
        """True / False where the property fixes the outcome, None otherwise (dataclass decoration, warnings turned
        into errors, class forms on classes without tree_flatten)"""
        if op == 'dc':
            return None
        user = tname in types
        key = (NS_KEY.get(ns), types.get(tname))
        if op == 'unreg':
            if not user or ns == 'E':
                return False                       # built-in / non-class / empty namespace
            return key in model                    # absent => must fail, present => must succeed
        if not user or ns == 'E' or op == 'reg_bad_entry' or key in model:
            return False                           # non-class, built-in, empty namespace, bad entry type, duplicate
        if warn == 'error' and tname in ('NT', 'SS', 'SS2'):
            return None                            # the namedtuple / struct sequence warning becomes an error
        if op in ('regc', 'regc_e', 'regd', 'regd_e', 'regp', 'regp_e') and not hasattr(types[tname], 'tree_flatten'):
            return None
        return True

    def observe(self, step, opdesc, types, model, ctx):
        where = f'after step {step} {opdesc}'
        for tname, cls in types.items():
            inst = instance(tname, cls)
            for ns in OBS_NS:
                reg = model.get((ns, cls)) if ns else None
                if reg is None:
                    reg = model.get(('', cls))
                py = optree.register_pytree_node.get(cls, namespace=ns)
                pyall = optree.register_pytree_node.get(namespace=ns)
                for nil in (False, True):
                    del CALLS[:]
                    try:
                        leaves, spec = optree.tree_flatten(inst, none_is_leaf=nil, namespace=ns)
                    except Exception as e:  # noqa: BLE001
                        ctx.fail('observe/flatten_raises', f'{where}: {tname} ns={ns!r}: {type(e).__name__}: {e}')
                        continue
                    calls = list(CALLS)
                    if reg is None:
                        want_kind = (K.NAMEDTUPLE if tname == 'NT' else K.STRUCTSEQUENCE if tname in STRUCTSEQS else K.LEAF)
                        if spec.kind != want_kind or calls:
                            ctx.fail('observe/unregistered_type_is_custom',
                                     f'{where}: {tname} ns={ns!r} nil={nil}: kind {spec.kind} calls {calls}')
                    else:
                        if spec.kind != K.CUSTOM:
                            ctx.fail('observe/registered_type_not_custom', f'{where}: {tname} ns={ns!r} nil={nil}: kind {spec.kind}')
                        elif isinstance(reg, Reg):
                            if calls != [('fn', reg.id)]:
                                ctx.fail('observe/wrong_registration_used', f'{where}: {tname} ns={ns!r}: calls {calls} expected fn {reg.id}')
                        elif reg[0] == 'cls':
                            if calls != [('cls', cls)]:
                                ctx.fail('observe/wrong_registration_used', f'{where}: {tname} ns={ns!r}: calls {calls} expected class method')
                        elif reg[0] == 'dc' and calls:
                            ctx.fail('observe/wrong_registration_used', f'{where}: {tname} ns={ns!r}: calls {calls} expected dataclass')
                # Python-visible registry
                if reg is None:
                    builtin_handler = (tname == 'NT' and py is not None and py.kind == K.NAMEDTUPLE) or \
                                      (tname in STRUCTSEQS and py is not None and py.kind == K.STRUCTSEQUENCE)
                    if py is not None and not builtin_handler:
                        ctx.fail('mirror/get_reports_unregistered', f'{where}: get({tname}, {ns!r}) = {py}')
                    if tname in ('NT',) + tuple(STRUCTSEQS) and py is None:
                        ctx.fail('mirror/get_missing_builtin_handler', f'{where}: get({tname}, {ns!r}) is None')
                    if cls in pyall:
                        ctx.fail('mirror/getall_reports_unregistered', f'{where}: {tname} in get(namespace={ns!r})')
                else:
                    if py is None or py.kind != K.CUSTOM or py.type is not cls:
                        ctx.fail('mirror/get_misses_registration', f'{where}: get({tname}, {ns!r}) = {py}')
                    else:
                        want_ns = ns if (ns and (ns, cls) in model) else ''
                        if py.namespace != want_ns:
                            ctx.fail('mirror/get_wrong_namespace', f'{where}: get({tname}, {ns!r}).namespace = {py.namespace!r} expected {want_ns!r}')
                        if isinstance(reg, Reg) and py.flatten_func is not reg.flatten:
                            ctx.fail('mirror/get_wrong_registration', f'{where}: get({tname}, {ns!r}) has another flatten_func')
                        # an explicitly given path entry type is the one recorded and the one accessors are built with
                        want_entry = reg.entry if isinstance(reg, Reg) else (reg[2] if reg[0] == 'cls' else None)
                        if want_entry is not None:
                            if py.path_entry_type is not want_entry:
                                ctx.fail('mirror/path_entry_type', f'{where}: get({tname}, {ns!r}).path_entry_type = {py.path_entry_type} expected {want_entry}')
                            try:
                                accs = optree.tree_accessors(inst, namespace=ns)
                                if accs and len(accs[0]) and type(accs[0][0]) is not want_entry:
                                    ctx.fail('observe/path_entry_type', f'{where}: {tname} ns={ns!r}: accessor entry {type(accs[0][0]).__name__}')
                            except Exception as e:  # noqa: BLE001
                                ctx.fail('observe/accessors_raise', f'{where}: {tname} ns={ns!r}: {type(e).__name__}: {e}')
                    e2 = pyall.get(cls)
                    if e2 is None:
                        ctx.fail('mirror/getall_misses_registration', f'{where}: {tname} not in get(namespace={ns!r})')
                    elif py is not None and e2 is not py:
                        ctx.fail('mirror/getall_disagrees_with_get', f'{where}: {tname} ns={ns!r}: get(cls) ns={py.namespace!r} vs get()[cls] ns={e2.namespace!r}')
                    # Python one-level flatten uses the mirror
                    del CALLS[:]
                    try:
                        optree.tree_flatten_one_level(inst, namespace=ns)
                        if isinstance(reg, Reg) and list(CALLS) != [('fn', reg.id)]:
                            ctx.fail('mirror/one_level_wrong_registration', f'{where}: {tname} ns={ns!r}: {list(CALLS)}')
                    except Exception as e:  # noqa: BLE001
                        ctx.fail('mirror/one_level_raises', f'{where}: {tname} ns={ns!r}: {type(e).__name__}: {e}')
        # built-ins keep their kind and stay visible
        for bname, (bcls, kind, mk) in BUILTINS.items():
            for ns in ('', 'a'):
                spec = optree.tree_structure(mk(), namespace=ns)
                if spec.kind != kind:
                    ctx.fail('builtin/kind_changed', f'{where}: {bname} ns={ns!r}: {spec.kind}')
                h = optree.register_pytree_node.get(bcls, namespace=ns)
                if h is None or h.kind != kind or bcls not in optree.register_pytree_node.get(namespace=ns):
                    ctx.fail('builtin/mirror_lost', f'{where}: get({bname}, {ns!r}) = {h}')

    def cleanup(self, types, model):
        # remove whatever is registered (model first, then brute force for torn states)
        for cls in list(types.values()):
            for nsarg in (GLOBAL, 'a', 'b'):
                try:
                    optree.unregister_pytree_node(cls, namespace=nsarg)
                except Exception:  # noqa: BLE001
                    pass
                # torn state: engine registered, Python mirror not
                try:
                    optree._C.unregister_node(cls, '' if nsarg is GLOBAL else nsarg)
                except Exception:  # noqa: BLE001
                    pass

    # ------------------------------------------------------------------ exhaustive part
    def extra(self, ctx):
        ops = ('reg', 'unreg', 'regc')
        tys = ('P', 'NT', 'SS', 'list')
        nss = ('G', 'a', 'b')
        alphabet = [[o, t, n] for o in ops for t in tys for n in nss]
        maxlen = 2 if ctx.tier == 'quick' else 3
        count = 0
        for L in range(1, maxlen + 1):
            for i, hist in enumerate(itertools.product(alphabet, repeat=L)):
                if i % ctx.nshards != ctx.shard:
                    continue
                for warn in (('default', 'error') if L <= 2 else ('default',)):
                    ctx.run_case({'hist': [list(h) for h in hist], 'warn': warn, 'exhaustive': L})
                    count += 1
        ctx.extra_cov['exhaustive_histories'] = count
        ctx.extra_cov['exhaustive_alphabet_max'] = len(alphabet)
        ctx.extra_cov['exhaustive_len_max'] = maxlen
        ctx.extra_cov['exhaustive'] = False   # exhaustive within the stated bound only


PROP = C12()
if __name__ == '__main__':
    runner.main(PROP)
