"""C08  treespec inspection, constructors, transform and compose are consistent (algebraic laws + model)."""
from __future__ import annotations

from collections import OrderedDict, defaultdict, deque

import optree
from hypothesis import strategies as st

from vlib import universe as U
from vlib import compare, gen, model, runner


def same_spec(ctx, tag, got, want):
    """== , equal hash, equal paths, equal counts"""
    if not (got == want):
        ctx.fail(f'{tag}/eq', f'got {got} expected {want}')
        return False
    if hash(got) != hash(want):
        ctx.fail(f'{tag}/hash', f'{got}')
    if not compare.paths_same(got.paths(), want.paths()):
        ctx.fail(f'{tag}/paths', f'{got.paths()!r} vs {want.paths()!r}')
    if (got.num_leaves, got.num_nodes, got.num_children) != (want.num_leaves, want.num_nodes, want.num_children):
        ctx.fail(f'{tag}/counts', f'{got} vs {want}')
    if got.none_is_leaf != want.none_is_leaf:
        ctx.fail(f'{tag}/none_is_leaf', '')
    # == does not look at the recorded dict insertion order: both must also rebuild the same tree (key order included)
    toks = [U.Leaf(1001 + 2 * i) for i in range(want.num_leaves)]
    outs = []
    for sp in (got, want):
        try:
            outs.append(('ok', sp.unflatten(toks)))
        except Exception as e:  # noqa: BLE001  (e.g. a partial, which destructures its children)
            outs.append(('raises', type(e).__name__))
    if outs[0][0] != outs[1][0]:
        ctx.fail(f'{tag}/unflatten', f'{outs[0]!r} vs {outs[1]!r}')
    elif outs[0][0] == 'ok':
        d = model.same_tree(outs[1][1], outs[0][1])
        if d:
            ctx.fail(f'{tag}/unflatten', d)
    return True


class _Holder:
    """custom-node metadata whose repr prints the treespec that holds it"""
    spec = None

    def __repr__(self):
        return f'Holder<{self.spec!r}>'


class C08(runner.Prop):
    ID = 'C08'
    LEVEL = 'exploration'
    RULE = ('generated trees x cfg (and a second tree for compose); every spec and every subtree spec reachable through '
            'children() is inspected with indices in [-n-1, n], rebuilt via transform / treespec_from_collection / the '
            'specific constructors, composed, and its repr compared with the model rendering; non-trivial = root has >=2 '
            'children with unequal subtree sizes or depth >= 2; distinct = sha1(case)')
    ASSUMPTIONS = [
        'documented repr notation is encoded in model.render()',
        'compose is checked for predicates none/never only (a predicate may legitimately fire on the composite tree)',
    ]
    tree_keys = ('t', 'u')

    def budget(self, tier):
        return 600 if tier == 'quick' else 8000

    def strategy(self, tier):
        ml = 10 if tier == 'quick' else 18
        return st.fixed_dictionaries({'t': gen.tree_descs(ml), 'u': gen.tree_descs(5, max_depth=3),
                                      'cfg': gen.configs()})

    def check_case(self, case, ctx):
        cfg = gen.sound_cfg(case)
        kw = gen.kw(cfg)
        t, u = gen.build(case['t']), gen.build(case['u'])
        m = model.Model.from_cfg(cfg)
        nil, ns = cfg['nil'], cfg['ns']
        with gen.ModeCtx(cfg):
            spec = optree.tree_structure(t, **kw)
            ms = m.structure(t)
            sizes = {c.num_nodes() for c in ms.children}
            ctx.nontrivial((len(ms.children) >= 2 and len(sizes) > 1) or ms.depth() >= 2)
            ctx.label(f'root:{ms.kind}')
            r = compare.spec_vs_model(spec, ms)
            if r:
                ctx.fail('inspect/vs_model', r)
                return
            # repr
            want_repr = model.render(ms, nil, spec.namespace)
            if repr(spec) != want_repr or str(spec) != want_repr:
                ctx.fail('repr', f'{spec!r} vs model {want_repr}')
            # every node of the spec tree (bounded)
            todo = [(spec, ms)]
            visited = 0
            while todo and visited < 12:
                s, node = todo.pop()
                visited += 1
                self.node_laws(s, node, cfg, ctx)
                todo += list(zip(s.children(), node.children))
            # identity transforms
            for tag, call in (('none', lambda: spec.transform()), ('identity', lambda: spec.transform(lambda x: x, lambda x: x)),
                              ('identity_node_only', lambda: optree.treespec_transform(spec, lambda x: x))):
                try:
                    tr = call()
                    same_spec(ctx, f'transform/{tag}', tr, spec)
                    if tr.namespace != spec.namespace:
                        ctx.fail(f'transform/{tag}/namespace', f'{tr.namespace!r} vs {spec.namespace!r}')
                except Exception as e:  # noqa: BLE001
                    ctx.fail(f'transform/{tag}/raises', f'{type(e).__name__}: {e}')
            # the two nullary constructors carry the flag they were given
            for tag, made, ref in (('treespec_leaf', optree.treespec_leaf(none_is_leaf=nil), optree.tree_structure(U.Leaf(0), none_is_leaf=nil)),
                                   ('treespec_none', optree.treespec_none(none_is_leaf=nil), optree.tree_structure(None, none_is_leaf=nil))):
                if same_spec(ctx, f'ctor/{tag}', made, ref) and (made.none_is_leaf != nil or repr(made) != repr(ref)):
                    ctx.fail(f'ctor/{tag}/flag', f'{made!r} vs {ref!r}')
            # a treespec that (through its metadata) contains itself renders the inner occurrence as '...', every time
            holder = _Holder()
            try:
                selfspec = optree.tree_structure(U.FN([t], holder), none_is_leaf=nil, namespace=U.NSF)
                holder.spec = selfspec
                plain = repr(optree.tree_structure(U.FN([t], "X"), none_is_leaf=nil, namespace=U.NSF))
                want_self = plain.replace("FN['X']", 'FN[Holder<...>]', 1)
                got_self = [repr(selfspec), str(selfspec), repr(selfspec)]
                if any(g != want_self for g in got_self):
                    ctx.fail('repr/self_reference', f'{got_self!r} expected {want_self!r}')
            except RecursionError:
                ctx.fail('repr/self_reference', 'RecursionError: the inner occurrence was not cut off')
            finally:
                holder.spec = None
            # each function is called once per node / per leaf, with one-level / leaf treespecs, and is applied also
            # when given alone: turning every internal node into a tuple of its children (the documented example)
            # keeps all counts and makes every path positional
            seen_nodes, seen_leaves = [], []

            def to_tuple(one):
                seen_nodes.append(one)
                return optree.treespec_tuple(one.children(), none_is_leaf=nil, namespace=spec.namespace)

            def see_leaf(leafspec):
                seen_leaves.append(leafspec)
                return leafspec

            def positional_paths(node, prefix=()):
                if node.is_leaf:
                    return [prefix]
                out = []
                for i, c in enumerate(node.children):
                    out += positional_paths(c, prefix + (i,))
                return out
            n_internal = spec.num_nodes - spec.num_leaves
            for tag, call in (('node_only', lambda: spec.transform(to_tuple)),
                              ('both', lambda: spec.transform(to_tuple, see_leaf)),
                              ('leaf_only', lambda: spec.transform(None, see_leaf))):
                del seen_nodes[:], seen_leaves[:]
                try:
                    changed = call()
                except Exception as e:  # noqa: BLE001
                    ctx.fail(f'transform/{tag}/raises', f'{type(e).__name__}: {e}')
                    continue
                want_nodes = n_internal if tag != 'leaf_only' else 0
                want_leaves = spec.num_leaves if tag != 'node_only' else 0
                if len(seen_nodes) != want_nodes or len(seen_leaves) != want_leaves:
                    ctx.fail(f'transform/{tag}/call_count', f'f_node {len(seen_nodes)}/{want_nodes} f_leaf {len(seen_leaves)}/{want_leaves}; {spec}')
                if any(o.num_nodes != o.num_children + 1 for o in seen_nodes) or any(not l.is_leaf() for l in seen_leaves):
                    ctx.fail(f'transform/{tag}/argument_shape', f'{seen_nodes[:3]} {seen_leaves[:3]}')
                if tag == 'leaf_only':
                    same_spec(ctx, 'transform/leaf_only_identity', changed, spec)
                    continue
                if (changed.num_nodes, changed.num_leaves) != (spec.num_nodes, spec.num_leaves):
                    ctx.fail(f'transform/{tag}/counts', f'{changed} from {spec}')
                elif not compare.paths_same(changed.paths(), positional_paths(ms)):
                    ctx.fail(f'transform/{tag}/paths', f'{changed.paths()!r} vs {positional_paths(ms)!r}')
                elif n_internal and (changed.type is not tuple or any(ch not in '(),* ' for ch in repr(changed)[len('PyTreeSpec('):].split(', NoneIsLeaf')[0].split(', namespace=')[0].rstrip(')') + ')')):
                    ctx.fail(f'transform/{tag}/not_all_tuples', f'{changed!r}')
            # transform(leaf -> s) == compose(s), and compose == structure of the composite tree
            if cfg['pred'] in ('none', 'never'):
                U_ = optree.tree_structure(u, **kw)
                msu = m.structure(u)
                try:
                    comp = spec.compose(U_)
                except Exception as e:  # noqa: BLE001
                    ctx.fail('compose/raises', f'{type(e).__name__}: {e}')
                    return
                same_spec(ctx, 'transform_leaf_vs_compose', spec.transform(None, lambda leafspec: U_), comp)
                if comp.namespace != (spec.namespace or U_.namespace) or comp.none_is_leaf != spec.none_is_leaf:
                    ctx.fail('compose/attributes', f'namespace {comp.namespace!r} from {spec.namespace!r} and {U_.namespace!r}')
                # the other operand order: a namespace recorded by either operand survives
                try:
                    comp2 = U_.compose(spec)
                    if comp2.namespace != (U_.namespace or spec.namespace) or comp2.num_leaves != comp.num_leaves:
                        ctx.fail('compose/attributes', f'reverse: namespace {comp2.namespace!r} from {U_.namespace!r} and {spec.namespace!r}')
                except Exception as e:  # noqa: BLE001
                    ctx.fail('compose/raises', f'reverse: {type(e).__name__}: {e}')
                if comp.num_leaves != spec.num_leaves * U_.num_leaves:
                    ctx.fail('compose/num_leaves', f'{comp.num_leaves} != {spec.num_leaves}*{U_.num_leaves}')
                composite = model.rebuild(ms, iter([gen.build(case['u']) for _ in range(ms.num_leaves())]))
                want = optree.tree_structure(composite, **kw)
                same_spec(ctx, 'compose/vs_composite_tree', comp, want)
                # (the recorded namespace may legitimately differ: compose() keeps the operand's
                #  namespace even when no custom node ends up in the result; == treats '' as wildcard)
                strip = lambda r: r.split(', namespace=')[0].rstrip(')')  # noqa: E731
                if strip(repr(comp)) != strip(repr(want)):
                    ctx.fail('compose/repr', f'{comp!r} vs {want!r}')
                ctx.label('compose_checked')
                if msu.num_leaves() == 0 or ms.num_leaves() == 0:
                    ctx.label('compose_with_leafless')

    def node_laws(self, s, node, cfg, ctx):
        nil, ns = cfg['nil'], cfg['ns']
        n = s.num_children
        kids = s.children()
        ents = s.entries()
        if len(s) != s.num_leaves:
            ctx.fail('inspect/len', f'{len(s)} vs {s.num_leaves}')
        # sub-treespecs handed out by the inspection methods carry the parent's flags
        subs = list(kids) + ([s.child(0), s.child(-1)] if n else [])
        if any(k.none_is_leaf != s.none_is_leaf for k in subs):
            ctx.fail('inspect/children_flags', f'{[k.none_is_leaf for k in subs]} vs {s.none_is_leaf}')
        for k, km in zip(kids, node.children):      # a child that holds a custom node must still know the namespace
            if any(c.kind == 'custom' for c in km.walk()) and k.namespace != s.namespace:
                ctx.fail('inspect/children_namespace', f'{k.namespace!r} vs {s.namespace!r}: {k}')
                break
        if s.is_leaf() != (node.kind == 'leaf') or s.is_leaf(strict=False) != (s.num_nodes == 1):
            ctx.fail('inspect/is_leaf', f'{s}')
        if optree.treespec_is_leaf(s) != s.is_leaf() or optree.treespec_is_strict_leaf(s) != s.is_leaf() \
                or optree.treespec_is_leaf(s, strict=True) != (node.kind == 'leaf') \
                or optree.treespec_is_leaf(s, strict=False) != (s.num_nodes == 1):
            ctx.fail('inspect/treespec_is_leaf', f'{s}')
        one = node.kind != 'leaf' and all(c.kind == 'leaf' for c in node.children)
        if s.is_one_level() != one or optree.treespec_is_one_level(s) != one:
            ctx.fail('inspect/is_one_level', f'{s}: {s.is_one_level()} expected {one}')
        if node.kind != 'leaf':
            if sum(k.num_leaves for k in kids) != s.num_leaves or sum(k.num_nodes for k in kids) + 1 != s.num_nodes:
                ctx.fail('inspect/child_sums', f'{s}')
        # indexing with Python semantics
        for i in range(-n - 1, n + 1):
            for name, fn, lst in (('child', s.child, kids), ('entry', s.entry, ents)):
                try:
                    want = ('ok', lst[i])
                except IndexError:
                    want = ('IndexError', None)
                try:
                    got = ('ok', fn(i))
                except IndexError:
                    got = ('IndexError', None)
                except Exception as e:  # noqa: BLE001
                    got = (type(e).__name__, str(e)[:80])
                if got[0] != want[0]:
                    ctx.fail(f'index/{name}', f'{s} [{i}]: {got} expected {want[0]}')
                elif got[0] == 'ok':
                    if name == 'child' and (not (got[1] == want[1]) or repr(got[1]) != repr(want[1])):
                        ctx.fail('index/child_value', f'{s}.child({i}) = {got[1]} expected {want[1]}')
                    if name == 'entry' and not compare.key_same(got[1], want[1]):
                        ctx.fail('index/entry_value', f'{s}.entry({i}) = {got[1]!r} expected {want[1]!r}')
        for k in kids:
            if k.none_is_leaf != s.none_is_leaf or k.namespace != s.namespace:
                ctx.fail('inspect/child_flags', f'{k!r} of {s!r}')
        ol = s.one_level()
        if node.kind == 'leaf':
            if ol is not None:
                ctx.fail('one_level/leaf', f'{ol}')
            return
        if ol is None or not ol.is_one_level() or ol.kind != s.kind or ol.type is not s.type \
                or ol.none_is_leaf != s.none_is_leaf or ol.namespace != s.namespace \
                or ol.num_children != n or not compare.path_same(tuple(ol.entries()), tuple(ents)):
            ctx.fail('one_level/root', f'{ol} of {s}')
            return
        # rebuild: one-level + children via transform
        it = iter(kids)
        try:
            rebuilt = ol.transform(None, lambda leafspec: next(it))
            same_spec(ctx, 'rebuild/transform', rebuilt, s)
        except Exception as e:  # noqa: BLE001
            ctx.fail('rebuild/transform_raises', f'{type(e).__name__}: {e}')
        # rebuild: constructors from the collection of child specs
        kind = node.kind
        if kind == 'custom' and node.type.__name__ == 'partial':
            return
        okw = {'none_is_leaf': nil, 'namespace': ns}
        routes = {}
        if kind == 'none':
            routes['treespec_none'] = lambda: optree.treespec_none(**okw)
            routes['from_collection'] = lambda: optree.treespec_from_collection(None, **okw)
        else:
            shell = model.MS(node.kind, node.type, [model.MS('leaf')] * n, node.entries, node.meta,
                             node.orig_keys, node.reg)
            coll = model.rebuild(shell, iter(kids))
            routes['from_collection'] = lambda: optree.treespec_from_collection(coll, **okw)
            if kind == 'tuple':
                routes['treespec_tuple'] = lambda: optree.treespec_tuple(iter(kids), **okw)
            elif kind == 'list':
                routes['treespec_list'] = lambda: optree.treespec_list(iter(kids), **okw)
            elif kind == 'dict':
                routes['treespec_dict'] = lambda: optree.treespec_dict(dict(coll), **okw)
                routes['treespec_dict_items'] = lambda: optree.treespec_dict(list(coll.items()), **okw)
            elif kind == 'od':
                routes['treespec_ordereddict'] = lambda: optree.treespec_ordereddict(list(coll.items()), **okw)
            elif kind == 'dd':
                routes['treespec_defaultdict'] = lambda: optree.treespec_defaultdict(node.meta, dict(coll), **okw)
            elif kind == 'deque':
                routes['treespec_deque'] = lambda: optree.treespec_deque(iter(kids), maxlen=node.meta, **okw)
            elif kind == 'nt':
                routes['treespec_namedtuple'] = lambda: optree.treespec_namedtuple(coll, **okw)
            elif kind == 'ss':
                routes['treespec_structseq'] = lambda: optree.treespec_structseq(coll, **okw)
        # without a namespace argument the constructors of the built-in kinds take the namespace their children recorded
        if kind in ('tuple', 'list', 'deque') and n > 0:
            ctor = {'tuple': optree.treespec_tuple, 'list': optree.treespec_list,
                    'deque': lambda ks, **k: optree.treespec_deque(ks, maxlen=node.meta, **k)}[kind]
            try:
                bare = ctor(list(kids), none_is_leaf=nil)
                if same_spec(ctx, f'rebuild/{kind}_without_namespace', bare, s) and bare.namespace != kids[0].namespace:
                    ctx.fail(f'rebuild/{kind}_without_namespace/namespace', f'{bare.namespace!r} vs children {kids[0].namespace!r}')
            except Exception as e:  # noqa: BLE001
                ctx.fail(f'rebuild/{kind}_without_namespace_raises', f'{type(e).__name__}: {e} (spec {s})')
        for name, fn in routes.items():
            try:
                got = fn()
            except Exception as e:  # noqa: BLE001
                ctx.fail(f'rebuild/{name}_raises', f'{type(e).__name__}: {e} (spec {s})')
                continue
            if same_spec(ctx, f'rebuild/{name}', got, s) and repr(got).split(', namespace=')[0].rstrip(')') != repr(s).split(', namespace=')[0].rstrip(')'):
                ctx.fail(f'rebuild/{name}/repr', f'{got!r} vs {s!r}')
            if kind == 'custom' and got.namespace != ns:
                ctx.fail(f'rebuild/{name}/custom_namespace', f'{got.namespace!r} expected {ns!r}: {got!r}')
        ctx.label('rebuild_checked')


PROP = C08()
if __name__ == '__main__':
    runner.main(PROP)
