"""C05  tree_map family: once per leaf, in order, aligned arguments (recording oracle + model)."""
from __future__ import annotations

import optree
from hypothesis import strategies as st

from vlib import compare, gen, model, runner
from vlib import universe as U

MUTABLE_KINDS = ('list', 'dict', 'od', 'dd', 'deque', 'custom')


@st.composite
def map_cases(draw, ml):
    t = draw(gen.tree_descs(ml))
    sub = gen.tree_descs(4, max_depth=3, min_leaves=2)
    rests, rels = [], []
    if draw(st.integers(0, 9)) == 0:
        # stratum: a tree without leaves (f is never called) and a rest that matches / differs by one edit
        t = draw(gen.tree_descs(ml, leaf=st.just(['none'])))
        r, e = gen.near_miss(draw, t)
        return {'t': t, 'rests': [r], 'rels': [f'near_miss:{e}'], 'cfg': draw(gen.configs())}
    if draw(st.integers(0, 3)) == 0:
        # stratum: a rest that differs from t by exactly one chosen local edit (every edit kind gets its share)
        t, r, e = gen.targeted_near_miss(draw, ml)
        if draw(st.booleans()):
            t, r = r, t
        extra = [t] if draw(st.booleans()) else []
        return {'t': t, 'rests': extra + [r], 'rels': ['same'] * len(extra) + [f'near_miss:{e}'], 'cfg': draw(gen.configs())}
    for _ in range(draw(st.sampled_from([0, 1, 1, 2, 3]))):
        rel = draw(st.sampled_from(['same', 'suffix', 'suffix', 'dict_variant', 'suffix_variant', 'near_miss']))
        if rel == 'same':
            r = t
        elif rel == 'suffix':
            r = gen.substitute_leaves(draw, t, sub, at_least_one=True, none_too=draw(st.booleans()))
        elif rel == 'dict_variant':
            r = gen.dict_variant(draw, t)
        elif rel == 'suffix_variant':
            r = gen.dict_variant(draw, gen.substitute_leaves(draw, t, sub, at_least_one=True, none_too=draw(st.booleans())))
        else:
            r, e = gen.near_miss(draw, gen.substitute_leaves(draw, t, sub, none_too=draw(st.booleans())) if draw(st.booleans()) else t)
            rel = f'near_miss:{e}'
        rests.append(r)
        rels.append(rel)
    return {'t': t, 'rests': rests, 'rels': rels, 'cfg': draw(gen.configs())}


class Recorder:
    def __init__(self):
        self.log = []

    def __call__(self, *args):
        self.log.append(args)
        return U.Leaf(1001 + 2 * len(self.log))


class C05(runner.Prop):
    ID = 'C05'
    LEVEL = 'exploration'
    RULE = ('generated (t, 0-3 rests derived by suffix substitution / dict-kind+order variation / one-edit near miss, cfg); '
            'a recording function logs every call; non-trivial = >=2 leaves and (>=1 rest or a predicate); distinct = sha1(case)')
    ASSUMPTIONS = [
        'acceptance of a rest is decided by the reference model (spec_prefix of t (with predicate) against rest (without predicate))',
        'sub_i(rest) is located by the model path navigation, never through optree',
        '"new containers" is asserted for mutable containers and universe nodes that the model classifies as internal nodes (predicate-made leaves are passed through by design; () and None are singletons)',
    ]
    tree_keys = ('t',)

    def budget(self, tier):
        return 500 if tier == 'quick' else 6000

    def strategy(self, tier):
        return map_cases(10 if tier == 'quick' else 18)

    def shrink_extra(self, case):
        for i in range(len(case['rests'])):
            c = dict(case)
            c['rests'] = case['rests'][:i] + case['rests'][i + 1:]
            c['rels'] = case['rels'][:i] + case['rels'][i + 1:]
            yield c

    def check_case(self, case, ctx):
        cfg = gen.sound_cfg({'t': case['t'], 'cfg': case['cfg'], 'r': case['rests']})
        kw = gen.kw(cfg)
        t = gen.build(case['t'])
        rests = [gen.build(r) for r in case['rests']]
        m = model.Model.from_cfg(cfg)
        m0 = model.Model(cfg['nil'], cfg['ns'], None, gen.insertion_mode(cfg))
        with gen.ModeCtx(cfg):
            leaves, paths, ms = m.flatten(t)
            n = len(leaves)
            ok = [model.spec_prefix(ms, m0.structure(r)) for r in rests]
            ctx.nontrivial(n >= 2 and (bool(rests) or cfg['pred'] != 'none'))
            ctx.label(f'rests={len(rests)}', 'all_accepted' if all(ok) else 'some_rejected')
            for rel in case['rels']:
                ctx.label('rest:' + rel.split(':')[0])
            if all(ok):
                expected = []
                for i in range(n):
                    expected.append((leaves[i], *[model.navigate(m0, r, paths[i]) for r in rests]))
            variants = {
                'tree_map': (optree.tree_map, None, False),
                'tree_map_': (optree.tree_map_, None, True),
                'tree_map_with_path': (optree.tree_map_with_path, 'path', False),
                'tree_map_with_path_': (optree.tree_map_with_path_, 'path', True),
                'tree_map_with_accessor': (optree.tree_map_with_accessor, 'acc', False),
                'tree_map_with_accessor_': (optree.tree_map_with_accessor_, 'acc', True),
            }
            for name, (fn, extra, inplace) in variants.items():
                rec = Recorder()
                try:
                    out = fn(rec, t, *rests, **kw)
                except ValueError as e:
                    if all(ok):
                        ctx.fail(f'{name}/unexpected_ValueError', str(e))
                    elif rec.log:
                        ctx.fail(f'{name}/called_before_failure', f'{len(rec.log)} calls before ValueError')
                    continue
                except Exception as e:  # noqa: BLE001
                    ctx.fail(f'{name}/wrong_exception', f'{type(e).__name__}: {e}')
                    continue
                if not all(ok):
                    ctx.fail(f'{name}/accepted_non_suffix', f'rels={case["rels"]} ok={ok}')
                    continue
                if len(rec.log) != n:
                    ctx.fail(f'{name}/call_count', f'{len(rec.log)} calls, {n} leaves')
                    continue
                for i, (got, want) in enumerate(zip(rec.log, expected)):
                    if extra == 'path':
                        if not compare.path_same(tuple(got[0]), tuple(paths[i])):
                            ctx.fail(f'{name}/path_arg', f'call {i}: {got[0]!r} expected {paths[i]!r}')
                        got = got[1:]
                    elif extra == 'acc':
                        if not isinstance(got[0], optree.PyTreeAccessor) or not compare.path_same(got[0].path, tuple(paths[i])):
                            ctx.fail(f'{name}/accessor_arg', f'call {i}: {got[0]!r} expected path {paths[i]!r}')
                        elif got[0](t) is not leaves[i]:
                            ctx.fail(f'{name}/accessor_arg_access', f'call {i}')
                        got = got[1:]
                    if len(got) != len(want) or any(a is not b for a, b in zip(got, want)):
                        ctx.fail(f'{name}/args', f'call {i}: got {got!r} expected {want!r}')
                        break
                if inplace:
                    if out is not t:
                        ctx.fail(f'{name}/returns_original', f'{out!r}')
                else:
                    toks = [U.Leaf(1001 + 2 * (i + 1)) for i in range(n)]
                    want_tree = model.rebuild(ms, iter(toks))
                    diff = model.same_tree(want_tree, out, leaf_eq=lambda x, y: type(x) is type(y) and x.n == y.n)
                    if diff:
                        ctx.fail(f'{name}/result_structure', diff)
            # identity map: same tree, new containers, same leaves
            ident = optree.tree_map(lambda x: x, t, **kw)
            diff = model.same_tree(t, ident)
            if diff:
                ctx.fail('identity/same_tree', diff)
            else:
                node_ids = {id(x.obj) for x in ms.walk() if x.kind in MUTABLE_KINDS}
                shared = [c for c in model.containers_of(ident) if id(c) in node_ids]
                if shared:
                    ctx.fail('identity/new_containers', f'{shared[0]!r} is shared with the input')
            # functor law for leaf-valued g
            memo_g, memo_f = {}, {}

            def g(x):
                return memo_g.setdefault(id(x), (x, U.Leaf(3001 + 2 * len(memo_g))))[1]

            def f(x):
                return memo_f.setdefault(id(x), (x, U.Leaf(5001 + 2 * len(memo_f))))[1]

            lhs = optree.tree_map(lambda x: f(g(x)), t, **kw)
            rhs = optree.tree_map(f, optree.tree_map(g, t, **kw), **kw)
            diff = model.same_tree(lhs, rhs)
            if diff:
                ctx.fail('functor_law', diff)
            # traverse / walk
            eng_leaves, spec = optree.tree_flatten(t, **kw)
            post = model.postorder_nodes(ms)
            seen_leaf, seen_node = [], []
            try:
                out = spec.traverse(eng_leaves, lambda node: (seen_node.append(node), node)[1],
                                    lambda leaf: (seen_leaf.append(leaf), leaf)[1])
            except Exception as e:  # noqa: BLE001
                ctx.fail('traverse/raises', f'{type(e).__name__}: {e}; spec={spec}')
                return
            if not compare.same_leaves(seen_leaf, leaves):
                ctx.fail('traverse/leaf_order', f'{seen_leaf!r} vs {leaves!r}')
            if [type(x) for x in seen_node] != [p.type for p in post]:
                ctx.fail('traverse/node_order', f'{[type(x).__name__ for x in seen_node]} vs {[p.type.__name__ for p in post]}')
            else:
                for x, p in zip(seen_node, post):
                    d = model.same_tree(p.obj, x)
                    if d:
                        ctx.fail('traverse/node_value', d)
                        break
            d = model.same_tree(t, out)
            if d:
                ctx.fail('traverse/result', d)
            calls = []

            def f_node(node_type, node_data, children):
                calls.append((node_type, node_data, children))
                return len(calls) - 1

            seen_leaf2 = []
            try:
                spec.walk(eng_leaves, f_node, lambda leaf: (seen_leaf2.append(leaf), leaf)[1])
                # the defaults: no functions = rebuild the tree (traverse) / every node as the raw triple (walk)
                d = model.same_tree(t, spec.traverse(eng_leaves))
                if d:
                    ctx.fail('traverse/defaults', d)
                d = model.same_tree(t, spec.traverse(iter(eng_leaves), None, None))
                if d:
                    ctx.fail('traverse/defaults_iterator', d)
            except Exception as e:  # noqa: BLE001
                ctx.fail('walk/raises', f'{type(e).__name__}: {e}; spec={spec}')
                return
            if not compare.same_leaves(seen_leaf2, leaves):
                ctx.fail('walk/leaf_order', '')
            if len(calls) != len(post):
                ctx.fail('walk/node_count', f'{len(calls)} vs {len(post)}')
            else:
                for (ty, data, children), p in zip(calls, post):
                    if ty is not p.type or len(children) != len(p.children):
                        ctx.fail('walk/node_type_arity', f'{ty} {len(children)} vs {p.type} {len(p.children)}')
                        break
                    want = model.node_data_of(p)
                    if not model.meta_eq(data, want) or type(data) is not type(want):
                        ctx.fail('walk/node_data', f'{p.kind}: {data!r} vs {want!r}')
                        break


PROP = C05()
if __name__ == '__main__':
    runner.main(PROP)
