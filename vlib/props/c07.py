"""C07  prefix matching is exact and its three implementations agree (3-way agreement + reference)."""
from __future__ import annotations

import optree
from hypothesis import strategies as st

from vlib import compare, gen, model, runner
from vlib import universe as U

# structure-determined predicates that are also invariant under the dict-kind equivalence
PREFIX_PREDICATES = ['none', 'never', 'tuple2', 'anydict_has_a', 'is_cg', 'is_nt2']


@st.composite
def cases(draw, ml):
    p = draw(gen.pair_descs(ml))
    out = dict(p, cfg=draw(gen.configs(predicates=PREFIX_PREDICATES)))
    if draw(st.integers(0, 2)) == 0:
        sub = gen.tree_descs(3, max_depth=2, min_leaves=2)
        c = gen.substitute_leaves(draw, p['b'], sub, at_least_one=True)
        if draw(st.booleans()):
            c = gen.dict_variant(draw, c)
        out['c'] = c
    return out


def reorder_class(msa, msb):
    """does the pair order >=1 dict differently / >=2 nested dicts differently with unequal child sizes?"""
    n = 0
    nested_unequal = False

    def rec(a, b, under):
        nonlocal n, nested_unequal
        if a.is_leaf or b.is_leaf:
            return
        kids = model.node_match(a, b)
        if kids is None:
            return
        diff = a.kind in model.DICT_KINDS and [repr(e) for e in a.entries] != [repr(e) for e in b.entries]
        if diff:
            n += 1
            sizes = {c.num_nodes() for c in b.children}
            if under and len(sizes) > 1:
                nested_unequal = True
        for x, y in zip(a.children, kids):
            rec(x, y, under or diff)

    rec(msa, msb, False)
    return n, nested_unequal


class C07(runner.Prop):
    ID = 'C07'
    LEVEL = 'exploration'
    RULE = ('generated pairs (prefix, full): true suffixes by leaf substitution, one-edit near misses, unrelated, '
            'dict kind / key order / maxlen variants incl. a dedicated nested-dict skeleton, heterogeneous key sets, '
            'optional third tree for transitivity; x cfg with structure-determined predicates; non-trivial = suffix with '
            '>=1 substituted subtree, any near miss, or any pair whose specs order >=1 dict differently; distinct = sha1(case)')
    ASSUMPTIONS = [
        'predicates restricted to structure-determined ones that are invariant under the dict-kind equivalence (a value- or kind-dependent predicate legitimately makes tree_structure(full) differ from what flatten_up_to(full) walks)',
        'reference answer = model.spec_prefix over the two model structures',
        'custom nodes of the universe derive their entries from (metadata, arity) only',
    ]
    tree_keys = ('a', 'b', 'c')

    def budget(self, tier):
        return 900 if tier == 'quick' else 12000

    def strategy(self, tier):
        return cases(10 if tier == 'quick' else 16)

    def check_case(self, case, ctx):
        cfg = gen.sound_cfg({k: case[k] for k in ('a', 'b', 'cfg')})
        kw = gen.kw(cfg)
        a, b = gen.build(case['a']), gen.build(case['b'])
        m = model.Model.from_cfg(cfg)
        m0 = model.Model(cfg['nil'], cfg['ns'], None, gen.insertion_mode(cfg))
        with gen.ModeCtx(cfg):
            aleaves, apaths, msa = m.flatten(a)
            bleaves, _bp, msb = m.flatten(b)
            want = model.spec_prefix(msa, msb)
            A = optree.tree_structure(a, **kw)
            B = optree.tree_structure(b, **kw)
            nre, nested = reorder_class(msa, msb) if want else (0, False)
            ctx.label('prefix' if want else 'not_prefix', f'rel:{case["rel"]}')
            if nre:
                ctx.label('dict_reordered')
            if nested:
                ctx.label('nested_dicts_reordered_unequal_sizes')
            ctx.nontrivial((want and msb.num_nodes() > msa.num_nodes()) or case['rel'] == 'near_miss' or nre > 0)
            # (1) spec-vs-tree
            up = None
            try:
                up = A.flatten_up_to(b)
                e1 = True
            except ValueError:
                e1 = False
            except Exception as e:  # noqa: BLE001
                ctx.fail('flatten_up_to/wrong_exception', f'{type(e).__name__}: {e}')
                e1 = None
            # (2) spec-vs-spec
            try:
                e2 = bool(A.is_prefix(B))
            except Exception as e:  # noqa: BLE001
                ctx.fail('is_prefix/raises', f'{type(e).__name__}: {e} A={A} B={B}')
                e2 = None
            # (3) tree-vs-tree
            try:
                errs = optree.prefix_errors(a, b, **kw)
                e3 = (errs == [])
                for mk in errs:
                    ex = mk('x')
                    if not isinstance(ex, ValueError):
                        ctx.fail('prefix_errors/not_ValueError', repr(ex))
            except Exception as e:  # noqa: BLE001
                ctx.fail('prefix_errors/raises', f'{type(e).__name__}: {e}')
                e3 = None
            for name, got in (('flatten_up_to', e1), ('is_prefix', e2), ('prefix_errors', e3)):
                if got is not None and got != want:
                    ctx.fail(f'{name}/vs_model', f'{name} says {got}, model says {want}; A={A} B={B}')
            # (4) on success: subtrees at the leaf paths, partition of the leaves
            if e1 and want:
                if len(up) != len(aleaves):
                    ctx.fail('flatten_up_to/count', f'{len(up)} vs {len(aleaves)}')
                else:
                    for i, p in enumerate(apaths):
                        if up[i] is not model.navigate(m0, b, p):
                            ctx.fail('flatten_up_to/subtree', f'leaf {i} path {p!r}: {up[i]!r}')
                            break
                    flat = []
                    for sub in up:
                        flat += optree.tree_leaves(sub, **kw)
                    if sorted(map(id, flat)) != sorted(map(id, optree.tree_leaves(b, **kw))):
                        ctx.fail('flatten_up_to/partition', f'{flat!r} vs {bleaves!r}')
            # (5) tree_map raises exactly when not a prefix
            try:
                optree.tree_map(lambda *xs: 0, a, b, **kw)
                e5 = True
            except ValueError:
                e5 = False
            except Exception as e:  # noqa: BLE001
                ctx.fail('tree_map/wrong_exception', f'{type(e).__name__}: {e}')
                e5 = want
            if e5 != want:
                ctx.fail('tree_map/vs_model', f'accepted={e5} model={want}')
            # (6) order laws
            if e2 is not None:
                try:
                    le, ge, suf = (A <= B), (B >= A), bool(B.is_suffix(A))
                    lt, gt = (A < B), (B > A)
                    st_ = bool(A.is_prefix(B, strict=True))
                    back = bool(B.is_prefix(A))
                    ref = bool(A.is_prefix(A)) and bool(B.is_prefix(B)) and (A <= A) and not (A < A)
                except Exception as e:  # noqa: BLE001
                    ctx.fail('order/raises', f'{type(e).__name__}: {e}')
                else:
                    if not (le == ge == suf == e2):
                        ctx.fail('order/converses', f'<= {le} >= {ge} is_suffix {suf} is_prefix {e2}')
                    if not (lt == gt == st_):
                        ctx.fail('order/strict_converses', f'< {lt} > {gt} strict {st_}')
                    # the functional spellings are the same relation (strict flag forwarded)
                    fn = (optree.treespec_is_prefix(A, B), optree.treespec_is_suffix(B, A),
                          optree.treespec_is_prefix(A, B, strict=True), optree.treespec_is_suffix(B, A, strict=True),
                          bool(B.is_suffix(A, strict=True)))
                    if fn != (e2, e2, lt, lt, lt):
                        ctx.fail('order/functional_spelling', f'{fn} vs is_prefix {e2} strict {lt}; A={A} B={B}')
                    want_lt = want and model.strictly_extends(msa, msb)
                    if lt != want_lt:
                        ctx.fail('order/strict_vs_model', f'A<B is {lt}, model {want_lt}; A={A} B={B}')
                    if not ref:
                        ctx.fail('order/reflexive', f'A={A}')
                    if back != model.spec_prefix(msb, msa):
                        ctx.fail('is_prefix/vs_model_reverse', f'B<=A is {back}; A={A} B={B}')
                    if e2 and back and (lt or (B < A)):
                        ctx.fail('order/antisymmetric', f'A={A} B={B}')
            # (6b) the other operand flattened in another namespace: treespecs that recorded different namespaces are
            # never in the prefix relation, a treespec without a recorded namespace is compatible with any
            for other_ns in [n for n in ('', U.NS, U.NSF) if n != cfg['ns']][:2]:
                cfg2 = dict(cfg, ns=other_ns)
                m2 = model.Model.from_cfg(cfg2)
                try:
                    msb2 = m2.structure(b)
                    B2 = optree.tree_structure(b, **gen.kw(cfg2))
                    got2 = bool(A.is_prefix(B2))
                    conv = (A <= B2, B2 >= A, bool(B2.is_suffix(A)))
                except Exception as e:  # noqa: BLE001
                    ctx.fail('cross_namespace/raises', f'{type(e).__name__}: {e}')
                    continue
                ns_ok = (not A.namespace) or (not B2.namespace) or A.namespace == B2.namespace
                want2 = ns_ok and model.spec_prefix(msa, msb2)
                if got2 != want2 or conv != (got2, got2, got2):
                    ctx.fail('cross_namespace/is_prefix', f'A ns={A.namespace!r} B ns={B2.namespace!r}: is_prefix {got2} {conv}, expected {want2}; A={A} B={B2}')
                if A.namespace and B2.namespace and A.namespace != B2.namespace:
                    ctx.label('incompatible_namespaces')
            # (6c) treespecs made with different none_is_leaf settings are never in the prefix relation
            try:
                B3 = optree.tree_structure(b, **dict(kw, none_is_leaf=not cfg['nil']))
                rel3 = (bool(A.is_prefix(B3)), bool(B3.is_prefix(A)), A <= B3, A >= B3, A < B3, bool(A.is_suffix(B3)))
                if any(rel3):
                    ctx.fail('cross_none_is_leaf/related', f'{rel3}; A={A} B={B3}')
            except ValueError:
                pass          # refusing the comparison outright would be just as good
            except Exception as e:  # noqa: BLE001
                ctx.fail('cross_none_is_leaf/raises', f'{type(e).__name__}: {e}')
            # (7) transitivity with a third tree
            if 'c' in case and e2:
                c = gen.build(case['c'])
                C = optree.tree_structure(c, **kw)
                try:
                    bc, ac = bool(B.is_prefix(C)), bool(A.is_prefix(C))
                except Exception as e:  # noqa: BLE001
                    ctx.fail('is_prefix/raises', f'{type(e).__name__}: {e}')
                else:
                    ctx.label('triple')
                    if bc and not ac:
                        ctx.fail('order/transitive', f'A={A} B={B} C={C}')
                    msc = m.structure(c)
                    if bc != model.spec_prefix(msb, msc):
                        ctx.fail('is_prefix/vs_model', f'B<=C is {bc}; B={B} C={C}')


PROP = C07()
if __name__ == '__main__':
    runner.main(PROP)
