"""C15  a failing user callback fails the operation cleanly
(exhaustive single-fault injection at every callback invocation index, refcount/identity/post-state oracle)."""
from __future__ import annotations

import gc
import pickle
import sys

import optree
from hypothesis import strategies as st

from vlib import gen, runner
from vlib import universe as U
from vlib.props.c14 import describe

T = U.TICK
NS = U.NSF


def pred(x):
    T.tick('pred')
    return False


def fmap(x, *rest):
    T.tick('map_fn')
    return x


def fmap_path(p, x, *rest):
    T.tick('map_fn')
    return x


def f_node(node):
    T.tick('f_node')
    return node


def f_walk(t, d, c):
    T.tick('f_node')
    return c


def f_leaf(leaf):
    T.tick('f_leaf')
    return leaf


def f_spec(s):
    T.tick('transform_fn')
    return s


def reducer(a, b):
    T.tick('reduce_fn')
    return a


KW = {'namespace': NS}
KWP = {'namespace': NS, 'is_leaf': pred}


def make_ops(tree, spec, leaves, other_spec):
    """name -> thunk; every thunk is re-runnable and returns a describable result"""
    leafspec = optree.treespec_leaf()
    dict_keys = _first_dict_keys(tree)      # (computed outside the thunks: harness code must not tick)
    return {
        'tree_flatten': lambda: optree.tree_flatten(tree, **KWP),
        'tree_flatten_with_path': lambda: optree.tree_flatten_with_path(tree, **KWP),
        'tree_flatten_with_accessor': lambda: optree.tree_flatten_with_accessor(tree, **KWP),
        'tree_leaves': lambda: optree.tree_leaves(tree, **KWP),
        'tree_iter': lambda: list(optree.tree_iter(tree, **KWP)),
        'tree_structure': lambda: optree.tree_structure(tree, **KWP),
        'tree_paths': lambda: optree.tree_paths(tree, **KWP),
        'tree_accessors': lambda: optree.tree_accessors(tree, **KWP),
        'tree_is_leaf': lambda: optree.tree_is_leaf(tree, **KWP),
        'all_leaves': lambda: optree.all_leaves([tree, 1], **KWP),
        'tree_unflatten': lambda: optree.tree_unflatten(spec, leaves),
        'tree_map': lambda: optree.tree_map(fmap, tree, tree, **KWP),
        'tree_map_': lambda: optree.tree_map_(fmap, tree, **KW),
        'tree_map_with_path': lambda: optree.tree_map_with_path(fmap_path, tree, tree, **KW),
        'tree_map_with_accessor': lambda: optree.tree_map_with_accessor(fmap_path, tree, **KW),
        'tree_replace_nones': lambda: optree.tree_replace_nones(0, tree, namespace=NS),
        'tree_transpose_map': lambda: optree.tree_transpose_map(lambda x: (fmap(x), x), tree, **KW) if spec.num_leaves else None,
        'tree_broadcast_prefix': lambda: optree.tree_broadcast_prefix(tree, tree, **KWP),
        'broadcast_prefix': lambda: optree.broadcast_prefix(tree, tree, **KW),
        'tree_broadcast_common': lambda: optree.tree_broadcast_common(tree, tree, **KW),
        'broadcast_common': lambda: optree.broadcast_common(tree, tree, **KWP),
        'tree_broadcast_map': lambda: optree.tree_broadcast_map(fmap, tree, tree, **KW),
        'tree_reduce': lambda: optree.tree_reduce(reducer, tree, 0, **KWP),
        'tree_all': lambda: optree.tree_all(tree, **KWP),
        'tree_flatten_one_level': lambda: optree.tree_flatten_one_level(tree, **KW) if not optree.tree_is_leaf(tree, **KW) else None,
        'prefix_errors': lambda: len(optree.prefix_errors(tree, tree, **KWP)),
        'spec.flatten_up_to': lambda: spec.flatten_up_to(tree),
        'spec.unflatten': lambda: spec.unflatten(iter(leaves)),
        'spec.traverse': lambda: spec.traverse(leaves, f_node, f_leaf),
        'spec.walk': lambda: spec.walk(leaves, f_walk, f_leaf),
        'spec.transform': lambda: spec.transform(f_spec, f_spec),
        'spec.compose': lambda: spec.compose(spec),
        'spec.eq': lambda: (spec == other_spec, spec != other_spec),
        'spec.hash': lambda: hash(spec),
        'spec.repr': lambda: repr(spec),
        'spec.is_prefix': lambda: (spec.is_prefix(other_spec), spec <= other_spec, spec < other_spec),
        'spec.broadcast_to_common_suffix': lambda: spec.broadcast_to_common_suffix(other_spec),
        'spec.paths_accessors': lambda: (spec.paths(), spec.accessors(), spec.entries(), spec.children()),
        'pickle': lambda: pickle.loads(pickle.dumps(spec)),
        'treespec_from_collection': lambda: optree.treespec_from_collection({k: leafspec for k in dict_keys}, namespace=NS),
        'treespec_dict': lambda: optree.treespec_dict([(k, leafspec) for k in dict_keys], namespace=NS),
    }


def _first_dict_keys(tree):
    from vlib import model
    for c in model.containers_of(tree):
        if isinstance(c, dict) and len(c):
            return list(c)
    return ['a']


def desc_result(r):
    if isinstance(r, optree.PyTreeSpec):
        return ('spec', repr(r))
    if isinstance(r, (tuple, list)) and any(isinstance(x, (optree.PyTreeSpec, optree.PyTreeAccessor)) or
                                             (isinstance(x, list) and x and isinstance(x[0], (optree.PyTreeSpec, optree.PyTreeAccessor)))
                                             for x in r):
        return tuple(desc_result(x) for x in r)
    try:
        return describe(r)
    except Exception:  # noqa: BLE001
        return repr(r)


def tracked_objects(tree, spec, other_spec):
    from vlib import model
    objs = [spec, other_spec, pred, fmap, fmap_path, f_node, f_leaf, f_spec]
    objs += model.containers_of(tree)
    for leaf in optree.tree_leaves(tree, namespace=NS):
        if type(leaf) is U.Leaf:
            objs.append(leaf)
    for c in model.containers_of(tree):
        if isinstance(c, dict):
            objs += [k for k in c if type(k) is U.FK]
        if type(c) is U.FN and c.meta is not None:
            objs.append(c.meta)
    return objs


def refcounts(objs, collect=False):
    if collect:
        gc.collect()
    return [sys.getrefcount(o) for o in objs]


def no_fk_in_od(desc):
    """CPython's own OrderedDict iteration (od.items()/values()) replaces an exception raised by a
    key's __hash__ with KeyError(key) (PyODict_GetItem suppresses errors).  The pure-Python helpers
    iterate OrderedDicts that way, so ticking keys are not put into OrderedDict nodes: the lost
    exception identity there is the interpreter's behaviour, not optree's."""
    root, refs = gen._node_refs(desc)
    for c, i in refs:
        n = c[i]
        if n[0] == 'od':
            n[1] = [[(['s', f'k{k[1]}'] if k[0] == 'FK' else k), v] for k, v in n[1]]
            n[1] = gen._uniq_items(n[1])
    return root[0]


FK_KEYS = st.one_of(st.integers(0, 5).map(lambda n: ['FK', n]), st.integers(0, 5).map(lambda n: ['FK', n]),
                    st.sampled_from(list('abc')).map(lambda s: ['s', s]), st.integers(0, 3).map(lambda n: ['i', n]))
KINDS = ('tuple', 'list', 'dict', 'od', 'dd', 'deque', 'nt', 'fn', 'fn', 'fn')
LEAF = st.one_of(st.integers(0, 99).map(lambda n: ['L', n]), st.integers(0, 3).map(lambda n: ['i', n]))


class C15(runner.Prop):
    ID = 'C15'
    LEVEL = 'fault_enumeration'
    RULE = ('generated scenario trees (<= 10 leaves) with ticking custom nodes (flatten/unflatten), ticking dict keys '
            '(__hash__/__eq__/__lt__), ticking custom metadata (__eq__) x ~40 API operations with ticking predicate / mapped '
            'function / visitors / transform functions; for every operation a dry run measures the number K of callback '
            'invocations and a single fault (a fresh exception object) is injected at EVERY k = 1..K; evaluations = number of '
            '(scenario, op, k) runs; non-trivial = K >= 3 for the operation; distinct = sha1(scenario, op, k); plus malformed flatten '
            'returns and wrong leaf counts for every operation')
    ASSUMPTIONS = [
        'refcounts are compared after dropping the exception (and its traceback) and gc.collect(); a warm-up run precedes the measurement',
        'tracked objects: every container, Leaf, ticking key, ticking metadata of the scenario, both treespecs, the callbacks',
        'key __lt__ faults raise a non-TypeError (TypeError is the documented signal for incomparable keys)',
    ]
    tree_keys = ('t',)

    def budget(self, tier):
        return 20 if tier == "quick" else 500

    def strategy(self, tier):
        return st.fixed_dictionaries({'t': gen.tree_descs(8 if tier == 'quick' else 10, kinds=KINDS, keys=FK_KEYS, leaf=LEAF,
                                                          min_leaves=2).map(no_fk_in_od)})

    def check_case(self, case, ctx):
        T.reset()
        tree = gen.build(case['t'])
        leaves, spec = optree.tree_flatten(tree, namespace=NS)
        other = gen.build(case['t'])
        other_spec = optree.tree_structure(other, namespace=NS)
        ops = make_ops(tree, spec, leaves, other_spec)
        objs = tracked_objects(tree, spec, other_spec)
        only = case.get('op')
        for name, op in ops.items():
            if only and name != only:
                continue
            self.one_op(name, op, objs, spec, ctx, case)
        self.malformed(case, ctx)
        T.reset()

    def one_op(self, name, op, objs, spec, ctx, case):
        # dry run (also warms caches): measure K and the baseline result
        T.arm(None)
        try:
            base = desc_result(op())
        except Exception as e:  # noqa: BLE001
            ctx.fail(f'{name}/dry_run_raises', f'{type(e).__name__}: {e}')
            return
        K = T.count
        kinds = list(T.kinds)
        T.arm(None)
        op()                    # second warm-up
        hash0, repr0 = hash(spec), repr(spec)
        rc0 = refcounts(objs, collect=True)      # the baseline every faulted run is compared with
        ks = range(1, K + 1) if 'k' not in case else [case['k']]
        for k in ks:
            runner.journal({'t': case['t'], 'op': name, 'k': k})
            before = rc0
            # the class of the injected exception rotates through Boom and Boom-derived TypeError / ValueError /
            # RuntimeError (a built-in type native code might catch and reinterpret); a TypeError from a key
            # *comparison* (__lt__, and __eq__, which sorting also calls) is the documented "incomparable" signal, so
            # those positions keep the plain class
            exc_cls = U.BOOM_CLASSES[(k + len(name) + len(case['t'])) % len(U.BOOM_CLASSES)]
            if exc_cls is U.BoomTypeError and (k > len(kinds) or kinds[k - 1] in ('key_lt', 'key_eq')):
                exc_cls = U.Boom
            T.arm(k, exc_cls=exc_cls)
            res = None
            returned = False
            failure = None
            try:
                res = op()
                returned = True
            except U.Boom as e:
                if e is not T.exc:
                    failure = ('identity', f'k={k} ({kinds[k - 1]}): raised {e!r}, injected {T.exc!r}')
                e = None
            except BaseException as e:  # noqa: BLE001
                failure = ('wrong_exception', f'k={k} ({kinds[k - 1] if k <= len(kinds) else "?"}): {type(e).__name__}: {e}')
                e = None
            injected = T.exc is not None
            T.arm(None)
            if returned and injected:
                failure = ('swallowed', f'k={k} ({kinds[k - 1]}): the injected exception was swallowed, returned {desc_result(res)!r}'[:500])
            res = None
            if ctx.recording:
                ctx.evaluations += 1
                if K >= 3:
                    ctx.nontrivial_hashes.add(runner.jhash([case['t'], name, k]))
                    if len(ctx.samples) < 4 and ctx.evaluations % 997 == 1:
                        ctx.samples.append({'t': case['t'], 'op': name, 'k': k, 'K': K, 'fault_at': kinds[k - 1]})
            if failure:
                ctx.fail(f'{name}/{failure[0]}', failure[1])
                continue
            after = refcounts(objs)
            if before != after:
                after = refcounts(objs, collect=True)     # cycles through tracebacks: collect, then recount
            if before != after:
                diffs = [(type(o).__name__, b, a) for o, b, a in zip(objs, before, after) if a != b]
                ctx.fail(f'{name}/refcount', f'k={k} ({kinds[k - 1]}): {diffs[:4]}')
            # afterwards everything behaves as if the failed call never happened
            try:
                again = desc_result(op())
                if again != base:
                    ctx.fail(f'{name}/post_state', f'k={k}: result after the failed call differs from the baseline')
            except Exception as e:  # noqa: BLE001
                ctx.fail(f'{name}/post_state_raises', f'k={k}: {type(e).__name__}: {e}')
            if name in ('spec.hash', 'spec.repr', 'spec.eq', 'pickle'):
                if hash(spec) != hash0 or repr(spec) != repr0:
                    ctx.fail(f'{name}/guard_not_cleared', f'k={k}: hash {hash(spec)} vs {hash0}; repr {repr(spec)[:80]}')
        ctx.label(f'K:{name}={min(K, 9)}' if K < 3 else 'ops_with_K>=3')
        for kd in set(kinds):
            ctx.label('fault_kind:' + kd)

    def malformed(self, case, ctx):
        """malformed custom flatten returns / wrong leaf counts: documented exception types only"""
        tree = gen.build(case['t'])
        for kind in U.Bad.KINDS:
            bad_tree = [tree, U.Bad(kind), {'k': U.Bad(kind)}]
            for name, fn in (('flatten', lambda t: optree.tree_flatten(t, namespace=NS)),
                             ('flatten_with_path', lambda t: optree.tree_flatten_with_path(t, namespace=NS)),
                             ('iter', lambda t: list(optree.tree_iter(t, namespace=NS))),
                             ('map', lambda t: optree.tree_map(fmap, t, namespace=NS)),
                             ('from_collection', lambda t: optree.treespec_from_collection(U.Bad(kind))),
                             ('prefix_errors', lambda t: optree.prefix_errors(t, t, namespace=NS)),
                             ('broadcast_common', lambda t: optree.tree_broadcast_common(t, t, namespace=NS))):
                try:
                    fn(bad_tree)
                    ctx.fail(f'malformed/{name}/accepted', kind)
                except (RuntimeError, ValueError, TypeError, U.BadFlattenError) as e:
                    if type(e).__name__ in ('InternalError', 'SystemError'):
                        ctx.fail(f'malformed/{name}/internal_error', f'{kind}: {e}')
                except Exception as e:  # noqa: BLE001
                    ctx.fail(f'malformed/{name}/wrong_exception', f'{kind}: {type(e).__name__}: {e}')
            if ctx.recording:
                ctx.evaluations += 1
        leaves, spec = optree.tree_flatten(tree, namespace=NS)
        for name, lv in (('too_few', leaves[:-1] if leaves else None), ('too_many', leaves + [0])):
            if lv is None:
                continue
            for mname, fn in (('unflatten', lambda: spec.unflatten(lv)), ('tree_unflatten', lambda: optree.tree_unflatten(spec, iter(lv))),
                              ('traverse', lambda: spec.traverse(lv)), ('walk', lambda: spec.walk(lv))):
                try:
                    fn()
                    ctx.fail(f'leaf_count/{mname}/{name}_accepted', '')
                except ValueError:
                    pass
                except Exception as e:  # noqa: BLE001
                    ctx.fail(f'leaf_count/{mname}/wrong_exception', f'{name}: {type(e).__name__}: {e}')


PROP = C15()
if __name__ == '__main__':
    runner.main(PROP)
