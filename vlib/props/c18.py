"""C18  the Python twins of engine logic give the same answers as the engine
(differential: generated classes, key lists, one-level nodes; cache histories with address reuse)."""
from __future__ import annotations

import gc
import os
import sys
import time
from collections import OrderedDict, defaultdict, deque, namedtuple

import optree
import optree.utils
from hypothesis import strategies as st

from vlib import compare, gen, model, runner
from vlib import universe as U

FUNCS = ['is_namedtuple', 'is_namedtuple_instance', 'is_namedtuple_class', 'namedtuple_fields',
         'is_structseq', 'is_structseq_instance', 'is_structseq_class', 'structseq_fields']
BaseNT = namedtuple('BaseNT', 'a b')


class StrSub(str):
    pass


class TSub(tuple):
    pass


FIELDS = {
    'tuple_str': ('x', 'y'), 'empty': (), 'tuple_nonstr': ('x', 1), 'tuple_strsub': (StrSub('x'), 'y'),
    'tuplesub': TSub(('x', 'y')), 'nt_instance': BaseNT('x', 'y'), 'list': ['x', 'y'], 'str': 'xy', 'none': None,
    'int': 3,
}
BASES = {'tuple': (tuple,), 'tsub': (TSub,), 'nt': (BaseNT,), 'object': (object,), 'list': (list,),
         'nt_and_object': (BaseNT, object)}


def make_class(d):
    ns = {}
    if d['fields'] != 'absent':
        ns['_fields'] = FIELDS[d['fields']]
    for attr in ('_make', '_asdict'):
        v = d[attr]
        if v == 'callable':
            ns[attr] = classmethod(lambda cls, *a: None) if attr == '_make' else (lambda self: {})
        elif v == 'noncallable':
            ns[attr] = 7
        elif v == 'none':
            ns[attr] = None
    nf = d['nfields']
    if nf != 'absent':
        val = {'ints': 2, 'nonint': 'two', 'bools': True, 'floats': 2.0}[nf]
        ns['n_fields'] = ns['n_sequence_fields'] = ns['n_unnamed_fields'] = val
        if d.get('nfields_partial'):
            del ns['n_unnamed_fields']
    if d['slots']:
        ns['__slots__'] = ()
    try:
        return type('Gen', BASES[d['base']], ns)
    except TypeError:
        ns.pop('__slots__', None)
        return type('Gen', BASES[d['base']], ns)


def make_instance(cls):
    if issubclass(cls, tuple):
        return tuple.__new__(cls, (1, 2))
    return cls()


def real_structseqs():
    import resource
    out = [os.stat_result, os.terminal_size, os.times_result, time.struct_time, type(sys.flags),
           type(sys.version_info), type(sys.float_info), type(sys.int_info), type(sys.hash_info),
           type(sys.thread_info), resource.struct_rusage, type(sys.implementation) if False else os.uname_result]
    return out


CLASS_DESC = st.fixed_dictionaries({
    'base': st.sampled_from(sorted(BASES)),
    'fields': st.sampled_from(['absent'] + sorted(FIELDS)),
    '_make': st.sampled_from(['absent', 'callable', 'callable', 'noncallable', 'none']),
    '_asdict': st.sampled_from(['absent', 'callable', 'callable', 'noncallable', 'none']),
    'nfields': st.sampled_from(['absent', 'absent', 'ints', 'nonint', 'bools', 'floats']),
    'nfields_partial': st.booleans(),
    'slots': st.booleans(),
    'as': st.sampled_from(['class', 'instance']),
})


def both(fn, x):
    """(engine answer, python answer) as comparable values incl. exception type"""
    out = []
    for impl in (fn, fn.__python_implementation__):
        try:
            out.append(('ok', impl(x)))
        except Exception as e:  # noqa: BLE001
            out.append(('exc', type(e).__name__))
    return out


def describe_unordered(x):
    """value description insensitive to dict/defaultdict key order (see ASSUMPTIONS)"""
    t = type(x)
    if t in (dict, defaultdict):
        return (t.__name__, repr(getattr(x, 'default_factory', None)),
                tuple(sorted(((repr(k), describe_unordered(v)) for k, v in x.items()), key=repr)))
    if t is OrderedDict:
        return ('OrderedDict', tuple((repr(k), describe_unordered(v)) for k, v in x.items()))
    if t in (list, tuple, deque) or (isinstance(x, tuple) and (model.is_namedtuple_class(t) or model.is_structseq_class(t))):
        return (t.__name__, getattr(x, 'maxlen', None), tuple(describe_unordered(c) for c in x))
    if t in U.CUSTOM_CLASSES and t.__name__ != 'partial':
        f, m = x._v_fields()
        return (t.__name__, repr(m), tuple((n, describe_unordered(v)) for n, v in f))
    if t.__name__ == 'partial':
        return ('partial', repr(x.func), describe_unordered(tuple(x.args)), describe_unordered(dict(x.keywords)))
    return ('leaf', id(x))


class NTSorted(namedtuple('NTSorted', 'lo hi')):
    """normalising constructor: not the identity on swapped children"""
    __slots__ = ()

    def __new__(cls, lo, hi):
        if repr(lo) > repr(hi):
            lo, hi = hi, lo
        return super().__new__(cls, lo, hi)


class NTInit(namedtuple('NTInit', 'a b')):
    """__init__ leaves a trace in the instance dict"""

    def __init__(self, a, b):
        self.tag = ('init', type(a).__name__, type(b).__name__)


class NTMake(namedtuple('NTMake', 'a b')):
    """_make is overridden: the engine never calls it"""
    __slots__ = ()

    @classmethod
    def _make(cls, iterable):
        raise RuntimeError('_make called')


class C18(runner.Prop):
    ID = 'C18'
    LEVEL = 'exploration'
    RULE = ('(a) classes generated with type() from trait toggles (base, _fields variants, _make/_asdict, n_*fields look-alikes, '
            'slots) as class or instance + all real struct sequences of os/time/sys/resource, through the 8 predicates / field '
            'listers: engine answer (value or exception type) == __python_implementation__ answer; (b) generated key lists '
            '(mixed, partially ordered, unorderable, failing half-way): engine dict order == optree.utils.total_order_sorted == '
            'model; (c) every one-level node of generated trees x cfg: tree_flatten_one_level vs the engine treespec; (d) cache '
            'history: > 4096 live classified classes, then transient classes created / classified / freed with address reuse, '
            'answers re-compared; non-trivial = class with >=1 namedtuple/structseq trait, key list with >=2 type groups, node '
            'with >=2 children; distinct = sha1(case)')
    ASSUMPTIONS = [
        'classes are not mutated after their first classification',
        'the Python one-level unflatten cannot know the original dict insertion order (metadata is the sorted key list): results are compared up to dict/defaultdict key order, exactly otherwise',
    ]
    tree_keys = ('t',)

    def budget(self, tier):
        return 600 if tier == 'quick' else 6000

    def strategy(self, tier):
        ml = 8 if tier == 'quick' else 14
        keys = st.lists(gen.key_descs(), min_size=0, max_size=6).map(
            lambda ks: [k for k, _ in gen._uniq_items([[k, 0] for k in ks])])
        return st.one_of(
            st.fixed_dictionaries({'kind': st.just('class'), 'cls': CLASS_DESC}),
            st.fixed_dictionaries({'kind': st.just('keys'), 'keys': keys, 'reverse': st.booleans()}),
            st.fixed_dictionaries({'kind': st.just('node'), 't': gen.tree_descs(ml), 'cfg': gen.configs()}),
        )

    def check_case(self, case, ctx):
        k = case['kind']
        if k == 'class':
            self.check_class(case, ctx)
        elif k == 'keys':
            self.check_keys(case, ctx)
        elif k == 'node':
            self.check_nodes(case, ctx)
        elif k == 'structseq':
            self.check_obj(real_structseqs()[case['i']], f'structseq {case["i"]}', ctx, as_instance=case['inst'])
            ctx.nontrivial(True)
        elif k == 'cache_history':
            self.cache_history(case, ctx)

    # ---- (a)
    def check_obj(self, obj, what, ctx, as_instance=False):
        if as_instance:
            try:
                n = getattr(obj, 'n_fields', 2)
                obj = obj(tuple(range(n))) if isinstance(obj, type) else obj
            except Exception:  # noqa: BLE001
                return
        for name in FUNCS:
            fn = getattr(optree, name, None) or getattr(optree.typing, name)
            eng, py = both(fn, obj)
            if eng != py:
                ctx.fail(f'twin/{name}', f'{what}: engine {eng!r} python {py!r}')

    def check_class(self, case, ctx):
        d = case['cls']
        cls = make_class(d)
        obj = make_instance(cls) if d['as'] == 'instance' else cls
        traits = (d['fields'] != 'absent') + (d['_make'] == 'callable') + (d['nfields'] != 'absent')
        ctx.nontrivial(traits >= 1)
        ctx.label(f'base:{d["base"]}', f'fields:{d["fields"]}')
        self.check_obj(obj, f'class {d}', ctx)
        # classification must also agree with what flatten does
        inst = make_instance(cls)
        # instance attributes that shadow what the classifiers read from the *class* (possible without __slots__)
        if not d['slots']:
            for attr, val in (('_fields', ('lon', 'lat')), ('n_sequence_fields', 1), ('_make', None)):
                shadow = make_instance(cls)
                try:
                    object.__setattr__(shadow, attr, val)
                except Exception:  # noqa: BLE001
                    continue
                self.check_obj(shadow, f'class {d} instance with own attribute {attr}', ctx)
                ctx.label('instance_attribute_shadows_class')
        try:
            kind = optree.tree_structure(inst).kind
        except Exception as e:  # noqa: BLE001
            ctx.fail('twin/flatten_raises', f'{d}: {type(e).__name__}: {e}')
            return
        py_nt = optree.is_namedtuple_class.__python_implementation__(cls)
        py_ss = optree.is_structseq_class.__python_implementation__(cls)
        want = optree.PyTreeKind.STRUCTSEQUENCE if py_ss else optree.PyTreeKind.NAMEDTUPLE if py_nt else optree.PyTreeKind.LEAF
        if kind != want:
            ctx.fail('twin/flatten_kind', f'{d}: engine flattens as {kind}, python twins say {want}')
        h = optree.register_pytree_node.get(cls)
        hk = h.kind if h is not None else optree.PyTreeKind.LEAF
        if hk != kind:
            ctx.fail('twin/registry_lookup_kind', f'{d}: register_pytree_node.get -> {hk}, engine {kind}')

    # ---- (b)
    def check_keys(self, case, ctx):
        keys = [gen.build_key(k) for k in case['keys']]
        groups = {type(k) for k in keys}
        ctx.nontrivial(len(groups) >= 2)
        ctx.label(f'key_groups={min(len(groups), 3)}')
        want = model.ref_sorted(keys)
        py = optree.utils.total_order_sorted(list(keys))
        eng = [p[0] for p in optree.tree_paths(dict.fromkeys(keys, 0))]
        eng_dd = list(optree.tree_structure(defaultdict(int, dict.fromkeys(keys, 0))).entries())
        it = [p for p in optree.tree_iter({k: i for i, k in enumerate(keys)})]
        for name, got in (('python_twin', py), ('engine_dict', eng), ('engine_defaultdict', eng_dd)):
            if len(got) != len(want) or any(a is not b for a, b in zip(got, want)):
                ctx.fail(f'sort/{name}', f'{got!r} expected {want!r} (insertion {keys!r})')
        if it != [keys.index(k) for k in want]:
            ctx.fail('sort/engine_iter', f'{it!r}')
        # the twin with key= (used by the Python dict handlers through _sorted_items) and reverse=
        items = [(k, i) for i, k in enumerate(keys)]
        got = [kv[0] for kv in optree.utils.total_order_sorted(items, key=lambda kv: kv[0])]
        if len(got) != len(want) or any(a is not b for a, b in zip(got, want)):
            ctx.fail('sort/python_twin_key', f'{got!r} expected {want!r}')
        if case.get('reverse'):
            # reverse=True: the same three-stage rule with the order reversed (stable), insertion order when unsortable
            def qual(x):
                return (f'{x.__class__.__module__}.{x.__class__.__qualname__}', x)
            try:
                want_rev = sorted(keys, reverse=True)
            except TypeError:
                try:
                    want_rev = sorted(keys, key=qual, reverse=True)
                except TypeError:
                    want_rev = list(keys)
            for tag, got_rev in (('reverse', optree.utils.total_order_sorted(list(keys), reverse=True)),
                                 ('reverse_key', [kv[0] for kv in optree.utils.total_order_sorted(items, key=lambda kv: kv[0], reverse=True)])):
                if len(got_rev) != len(want_rev) or any(a is not b for a, b in zip(got_rev, want_rev)):
                    ctx.fail(f'sort/python_twin_{tag}', f'{got_rev!r} expected {want_rev!r}')
            ctx.label('sort_reverse')
        one = optree.tree_flatten_one_level(dict.fromkeys(keys, 0)) if keys else None
        if one is not None and (len(one.entries) != len(want) or any(a is not b for a, b in zip(one.entries, want))):
            ctx.fail('sort/python_one_level', f'{one.entries!r} expected {want!r}')

    # ---- (c)
    def check_nodes(self, case, ctx):
        cfg = gen.sound_cfg(case)
        kw = gen.kw(cfg)
        tree = gen.build(case['t'])
        m = model.Model.from_cfg(cfg)
        with gen.ModeCtx(cfg):
            ms = m.structure(tree)
            nodes = [n for n in ms.walk() if not n.is_leaf][:8]
            ctx.nontrivial(any(len(n.children) >= 2 for n in nodes))
            # what the engine flattens as a leaf (None under none_is_leaf, a container the predicate stops at, an
            # unregistered object) the Python one-level flatten must refuse, as documented (ValueError)
            for lf in [n for n in ms.walk() if n.is_leaf][:6]:
                engine_leaf = optree.tree_structure(lf.obj, **kw).is_leaf()
                try:
                    optree.tree_flatten_one_level(lf.obj, **kw)
                    refused = False
                except ValueError:
                    refused = True
                except Exception as e:  # noqa: BLE001
                    ctx.fail('one_level/leaf_wrong_exception', f'{lf.obj!r}: {type(e).__name__}: {e}')
                    continue
                if refused != engine_leaf:
                    ctx.fail('one_level/leaf_vs_engine', f'{lf.obj!r}: python refused={refused} engine is_leaf={engine_leaf}')
                if lf.obj is None or isinstance(lf.obj, (list, tuple, dict)) or type(lf.obj) in U.CUSTOM_CLASSES:
                    ctx.label('one_level:leaf_that_could_be_a_node')
            for n in nodes:
                obj = n.obj
                ctx.label(f'node:{n.kind}')
                try:
                    py = optree.tree_flatten_one_level(obj, **kw)
                except Exception as e:  # noqa: BLE001
                    ctx.fail('one_level/python_raises', f'{n.kind} {obj!r}: {type(e).__name__}: {e}')
                    continue
                spec = optree.tree_structure(obj, **kw)
                ol = spec.one_level()
                if ol is None:
                    ctx.fail('one_level/engine_leaf', f'{obj!r}')
                    continue
                eng_children = ol.flatten_up_to(obj)
                if not compare.same_leaves(py.children, eng_children):
                    ctx.fail('one_level/children', f'{n.kind}: python {py.children!r} engine {eng_children!r}')
                if not compare.path_same(tuple(py.entries), tuple(spec.entries())):
                    ctx.fail('one_level/entries', f'{n.kind}: python {py.entries!r} engine {spec.entries()!r}')
                if py.kind != spec.kind or py.type is not spec.type:
                    ctx.fail('one_level/kind_type', f'python {py.kind} {py.type} engine {spec.kind} {spec.type}')
                node_data = ol.walk(eng_children, lambda t, d, c: ('ND', d))
                node_data = node_data[1] if isinstance(node_data, tuple) and node_data and node_data[0] == 'ND' else None
                if n.kind != 'none' and not (model.meta_eq(py.metadata, node_data) and type(py.metadata) is type(node_data)):
                    ctx.fail('one_level/metadata', f'{n.kind}: python {py.metadata!r} engine {node_data!r}')
                accs = ol.accessors()
                for e, acc in zip(py.entries, accs):
                    ent = py.path_entry_type(e, py.type, py.kind)
                    if type(ent) is not type(acc[0]) or ent != acc[0]:
                        ctx.fail('one_level/path_entry_type', f'{n.kind}: python {ent!r} engine {acc[0]!r}')
                        break
                try:
                    rebuilt = py.unflatten_func(py.metadata, py.children)
                    eng_rebuilt = ol.unflatten(eng_children)
                except Exception as e:  # noqa: BLE001
                    ctx.fail('one_level/unflatten_raises', f'{n.kind}: {type(e).__name__}: {e}')
                    continue
                if describe_unordered(rebuilt) != describe_unordered(eng_rebuilt):
                    ctx.fail('one_level/unflatten', f'{n.kind}: python {rebuilt!r} engine {eng_rebuilt!r}')

            # namedtuple subclasses that customise construction: the twin's unflatten function must build what the
            # engine builds (the class called with the children), also for children the constructor is not the
            # identity on
            for cls in (NTSorted, NTInit, NTMake):
                obj = cls(tree, U.Leaf(3))
                if optree.tree_structure(obj, **kw).is_leaf():
                    continue            # the predicate of this configuration makes it a leaf (refusal is checked above)
                try:
                    py = optree.tree_flatten_one_level(obj, **kw)
                    ol = optree.tree_structure(obj, **kw).one_level()
                except Exception as e:  # noqa: BLE001
                    ctx.fail('one_level/python_raises', f'{cls.__name__}: {type(e).__name__}: {e}')
                    continue
                if ol is None:
                    ctx.fail('one_level/engine_leaf', f'{cls.__name__}')
                    continue
                for ch in (list(py.children), list(py.children)[::-1], [U.Leaf(9), U.Leaf(1)]):
                    outs = []
                    for f in (lambda: py.unflatten_func(py.metadata, ch), lambda: ol.unflatten(ch)):
                        try:
                            r = f()
                            outs.append((type(r), tuple(id(x) for x in r), getattr(r, '__dict__', None)))
                        except Exception as e:  # noqa: BLE001
                            outs.append(('raises', type(e).__name__))
                    if outs[0] != outs[1]:
                        ctx.fail('one_level/unflatten_custom_constructor', f'{cls.__name__}: python {outs[0]!r} engine {outs[1]!r}')
            ctx.label('one_level:constructor_customising_namedtuples')

    # ---- (d)
    def cache_history(self, case, ctx):
        n_live = case['n_live']
        live = []
        for i in range(n_live):
            c = type(f'Live{i}', (tuple,), {'_fields': ('x',), '_make': classmethod(lambda cls, a: None), '_asdict': lambda s: {}}
                     if i % 2 else {})
            optree.is_namedtuple_class(c)
            optree.is_structseq_class(c)
            live.append(c)
        mism = 0
        reuse = 0
        seen_addr = set()
        for i in range(case['n_transient']):
            kind = i % 3
            ns = {}
            if kind == 0:
                ns = {'_fields': ('x', 'y'), '_make': classmethod(lambda cls, a: None), '_asdict': lambda s: {}}
            elif kind == 1:
                ns = {'_fields': ('x', 1)}
            c = type(f'T{i}', (tuple,), ns)
            if id(c) in seen_addr:
                reuse += 1
            seen_addr.add(id(c))
            inst = tuple.__new__(c, (1, 2))
            for name in ('is_namedtuple_class', 'is_structseq_class', 'is_namedtuple', 'namedtuple_fields'):
                fn = getattr(optree, name)
                eng, py = both(fn, c if 'fields' not in name else inst)
                if eng != py:
                    mism += 1
                    ctx.fail(f'cache/{name}', f'transient class #{i} (kind {kind}, after {n_live} live classes): engine {eng!r} python {py!r}')
            k = optree.tree_structure(inst).kind
            want = optree.PyTreeKind.NAMEDTUPLE if kind == 0 else optree.PyTreeKind.LEAF
            if k != want:
                ctx.fail('cache/flatten_kind', f'transient class #{i} (kind {kind}): flatten kind {k}')
            del c, inst
            if i % 50 == 0:
                gc.collect()
        # answers for the long-lived classes are unchanged
        for i, c in enumerate(live[:200] + live[-200:]):
            eng, py = both(optree.is_namedtuple_class, c)
            if eng != py:
                ctx.fail('cache/live_class_changed', f'live class {i}: engine {eng!r} python {py!r}')
        ctx.nontrivial(True)
        ctx.label('cache_history')
        ctx.extra_cov['cache_address_reuses'] = ctx.extra_cov.get('cache_address_reuses', 0) + reuse
        del live
        gc.collect()

    def extra(self, ctx):
        ss = real_structseqs()
        for i in range(len(ss)):
            if i % ctx.nshards == ctx.shard:
                ctx.run_case({'kind': 'structseq', 'i': i, 'inst': False})
                ctx.run_case({'kind': 'structseq', 'i': i, 'inst': True})
        if ctx.shard == 0:
            ctx.run_case({'kind': 'cache_history', 'n_live': 4200, 'n_transient': 1500 if ctx.tier == 'quick' else 6000})
        if ctx.shard == 1 % ctx.nshards:
            ctx.run_case({'kind': 'cache_history', 'n_live': 100, 'n_transient': 1500 if ctx.tier == 'quick' else 6000})


PROP = C18()
if __name__ == '__main__':
    runner.main(PROP)
