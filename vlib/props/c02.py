"""C02  leaf order and node/leaf classification follow the documented rules (differential vs model
+ metamorphic: permutation invariance, none_is_leaf relation, predicate relation)."""
from __future__ import annotations

import copy
import itertools

import optree
from hypothesis import strategies as st

from vlib import compare, gen, model, runner
from vlib import universe as U
from vlib.props.c01 import classes_of

TOTAL_KEY_TAGS = {'i', 's', 'f', 'by', 'n', 'KO', 'NZ', 'NB'}


def _key_total(kd):
    if kd[0] == 't':
        return all(k[0] == 'i' for k in kd[1])
    return kd[0] in TOTAL_KEY_TAGS


def dict_nodes(desc, path=()):
    """positions of dict / dd nodes: yields (path, tag, items_slot)"""
    if not isinstance(desc, list) or not desc:
        return
    if isinstance(desc[0], str):
        if desc[0] == 'dict':
            yield path, 'dict', 1
        elif desc[0] == 'dd':
            yield path, 'dd', 2
    for i, x in enumerate(desc):
        if isinstance(x, list):
            yield from dict_nodes(x, path + (i,))


def get_at(desc, path):
    for i in path:
        desc = desc[i]
    return desc


class C02(runner.Prop):
    ID = 'C02'
    LEVEL = 'exploration'
    RULE = ('generated trees (incl. subclass instances, mixed / incomparable key sets, histories) x cfg; '
            'every case is compared with the reference model; for up to 3 dict nodes with 2..4 keys all '
            'insertion permutations are enumerated inside the case; non-trivial = tree has a dict whose '
            'insertion order differs from the documented order, or a subclass instance, or a '
            'namespaced/shadowed custom node, or a predicate hit; distinct = sha1(description,cfg)')
    ASSUMPTIONS = [
        'reference model vlib/model.py encodes README rules (key ordering, None, registry lookup order)',
        'permutation invariance asserted only for key sets that are totally ordered under the documented comparison (no frozenset partial orders, no unsortable user keys, no NaN)',
        'none_is_leaf relation asserted only for predicates that do not fire on None',
    ]

    def budget(self, tier):
        return 800 if tier == 'quick' else 10000

    def strategy(self, tier):
        ml = 12 if tier == 'quick' else 22
        general = st.fixed_dictionaries({'t': gen.tree_descs(ml), 'cfg': gen.configs()})
        total = st.fixed_dictionaries({
            't': gen.tree_descs(ml, keys=gen.key_descs(total_only=True),
                                kinds=('dict', 'dd', 'od', 'tuple', 'list', 'cg', 'cs', 'nt')),
            'cfg': gen.configs(), 'perm': st.just(True)})
        # stratum: key sets that defeat both sorting attempts (two keys of a type without ordering) *after* sortable
        # keys inserted out of order - the documented result is the insertion order, untouched by the failed sorts
        unsortable_keys = st.tuples(st.permutations([['i', 1], ['i', 2], ['i', 3], ['s', 'a'], ['s', 'b']]), st.integers(2, 4),
                                    st.permutations([['K', 0], ['K', 1], ['K', 2]]), st.integers(2, 3), st.booleans()).map(
            lambda t: (list(t[0][:t[1]]) + list(t[2][:t[3]])) if t[4] else (list(t[0][:1]) + list(t[2][:1]) + list(t[0][1:t[1]]) + list(t[2][1:t[3]])))

        @st.composite
        def unsortable(draw):
            keys = draw(unsortable_keys)
            kind = draw(st.sampled_from(['dict', 'dd', 'dict']))
            items = [[k, draw(gen.tree_descs(2, max_depth=2))] for k in keys]
            node = ['dd', draw(gen._FACT), items, []] if kind == 'dd' else ['dict', items, []]
            outer = draw(st.sampled_from(['bare', 'list', 'dict']))
            t = node if outer == 'bare' else (['list', [['L', 0], node]] if outer == 'list' else ['dict', [[['s', 'z'], node], [['s', 'b'], ['L', 1]]], []])
            return {'t': t, 'cfg': draw(gen.configs())}
        halfsort = st.fixed_dictionaries({'t': gen.partially_comparable_dicts(), 'cfg': gen.configs()})
        return st.one_of(general, total, unsortable(), halfsort)

    def check_case(self, case, ctx):
        cfg = gen.sound_cfg(case)
        desc = case['t']
        tree = gen.build(desc)
        kw = gen.kw(cfg)
        m = model.Model.from_cfg(cfg)
        pred = gen.PREDICATES[cfg['pred']]
        acc = set()
        classes_of(desc, acc)
        with gen.ModeCtx(cfg):
            mleaves, mpaths, ms = m.flatten(tree)
            leaves, spec = optree.tree_flatten(tree, **kw)
            nt = ('dict_unsorted_insertion' in acc or gen.contains_tag(desc, ('sub', 'cs', 'cn', 'cm', 'dc'))
                  or (pred is not None and any(pred(x) for x in mleaves)))
            ctx.nontrivial(nt and len(mleaves) >= 1)
            if gen.contains_tag(desc, ('sub',)):
                acc.add('subclass_leaf')
            if gen.contains_tag(desc, ('cs',)):
                acc.add('shadowed_custom')
            if pred is not None and any(pred(x) for x in mleaves):
                acc.add('predicate_hit')
            ctx.label(*acc)
            # (1) leaves: identity and order
            if not compare.same_leaves(leaves, mleaves):
                ctx.fail('model/leaves', f'engine {leaves!r} model {mleaves!r}')
            # (2) classification of every node
            r = compare.spec_vs_model(spec, ms)
            if r:
                ctx.fail('model/structure', r)
            # (3) paths
            paths = optree.tree_paths(tree, **kw)
            if not compare.paths_same(paths, mpaths):
                ctx.fail('model/paths', f'engine {paths!r} model {mpaths!r}')
            if not compare.same_leaves(optree.tree_leaves(tree, **kw), mleaves):
                ctx.fail('model/tree_leaves', '')
            # (4) none_is_leaf relation
            if cfg['pred'] not in ('none_obj', 'always'):
                kw_t = dict(kw, none_is_leaf=True)
                kw_f = dict(kw, none_is_leaf=False)
                lt = optree.tree_leaves(tree, **kw_t)
                lf = optree.tree_leaves(tree, **kw_f)
                if not compare.same_leaves(lf, [x for x in lt if x is not None]):
                    ctx.fail('nil_relation', f'nil=False {lf!r} nil=True {lt!r}')
                if any(x is None for x in lt):
                    ctx.label('has_none')
            # (5) predicate relation
            if pred is not None:
                kw0 = {k: v for k, v in kw.items() if k != 'is_leaf'}
                flat = []
                for leaf in leaves:
                    flat += optree.tree_leaves(leaf, **kw0)
                if not compare.same_leaves(flat, optree.tree_leaves(tree, **kw0)):
                    ctx.fail('predicate_relation', f'pred={cfg["pred"]}')
            # (6) tree_replace_nones
            sentinel = U.Leaf(-7)
            rep = optree.tree_replace_nones(sentinel, tree, namespace=cfg['ns'])
            got = optree.tree_leaves(rep, none_is_leaf=True, namespace=cfg['ns'])
            want = [sentinel if x is None else x
                    for x in optree.tree_leaves(tree, none_is_leaf=True, namespace=cfg['ns'])]
            if not compare.same_leaves(got, want):
                ctx.fail('replace_nones', f'{got!r} vs {want!r}')
            # (7) unknown namespace behaves like the global one
            if cfg['ns'] == U.NS_UNKNOWN and cfg['mode'] != 'ins_ns':
                l0, s0 = optree.tree_flatten(tree, **dict(kw, namespace=''))
                if not compare.same_leaves(l0, leaves) or not (s0 == spec):  # (hash: see C06)
                    ctx.fail('unknown_namespace', f'{spec} vs {s0}')
            # (8) all insertion permutations of small dict nodes
            if case.get('perm'):
                self.permutations(case, cfg, kw, m, leaves, spec, ctx)

    def permutations(self, case, cfg, kw, m, leaves, spec, ctx):
        desc = case['t']
        base_sig = [compare.leafsig(x) for x in leaves]
        done = 0
        for path, tag, slot in dict_nodes(desc):
            node = get_at(desc, path)
            items = node[slot]
            if not (2 <= len(items) <= 4) or not all(_key_total(k) for k, _ in items):
                continue
            if any(op[0] == 'auto' for op in node[slot + 1]):
                continue   # auto-insertion adds keys: not a pure permutation
            if done >= 3:
                break
            done += 1
            for perm in itertools.permutations(range(len(items))):
                d2 = copy.deepcopy(desc)
                n2 = get_at(d2, path)
                n2[slot] = [copy.deepcopy(items[i]) for i in perm]
                n2[slot + 1] = []   # no history: pure insertion order = perm
                t2 = gen.build(d2)
                l2, s2 = optree.tree_flatten(t2, **kw)
                ml2 = m.flatten(t2)[0]
                if not compare.same_leaves(l2, ml2):
                    ctx.fail('perm/model_leaves', f'perm {perm} at {path}: {l2!r} vs model {ml2!r}')
                if not gen.insertion_mode(cfg):
                    # history of the base node may have reordered it; sorted mode must not care
                    if [compare.leafsig(x) for x in l2] != base_sig:
                        ctx.fail('perm/leaves_invariant', f'perm {perm} at {path}: {l2!r} vs {leaves!r}')
                    if not (s2 == spec) or hash(s2) != hash(spec):
                        ctx.fail('perm/spec_invariant', f'perm {perm} at {path}: {s2} vs {spec}')
            ctx.label('perm_nodes')


PROP = C02()
if __name__ == '__main__':
    runner.main(PROP)
