"""C04  paths and accessors address exactly the leaves (access law, entry typing vs model,
prefix-freeness, eq/hash consistency, slicing/concat composition, codify/eval agreement)."""
from __future__ import annotations

import collections.abc
import dataclasses

import optree
from hypothesis import strategies as st

from vlib import compare, gen, model, runner
from vlib import universe as U

LITERAL_KEY_TAGS = {'i', 's', 'f', 'b', 'by', 'n'}


def expected_entry_class(ms: model.MS):
    """Entry class for children of a node, re-derived from the documentation."""
    k = ms.kind
    if k in ('tuple', 'list', 'deque'):
        return optree.SequenceEntry
    if k in ('dict', 'od', 'dd'):
        return optree.MappingEntry
    if k == 'nt':
        return optree.NamedTupleEntry
    if k == 'ss':
        return optree.StructSequenceEntry
    if k == 'custom':
        declared = U.MODEL_REGISTRY[ms.reg][2]
        if declared is not optree.AutoEntry:
            return declared
        t = ms.type   # AutoEntry dispatch as documented in its docstring
        if model.is_structseq_class(t):
            return optree.StructSequenceEntry
        if model.is_namedtuple_class(t):
            return optree.NamedTupleEntry
        if dataclasses.is_dataclass(t):
            return optree.DataclassEntry
        if issubclass(t, collections.abc.Mapping):
            return optree.MappingEntry
        if issubclass(t, collections.abc.Sequence):
            return optree.SequenceEntry
        return optree.FlattenedEntry
    raise AssertionError(k)


def typed_paths(ms: model.MS, prefix=()):
    """model: list of tuples of (entry, parent MS) per leaf"""
    if ms.is_leaf:
        return [prefix]
    out = []
    for e, c in zip(ms.entries, ms.children):
        out += typed_paths(c, prefix + ((e, ms),))
    return out


def key_literal(e):
    if isinstance(e, tuple):
        return all(key_literal(x) for x in e)
    if type(e) is float and (e != e or e in (float('inf'), float('-inf'))):
        return False        # repr 'nan' / 'inf' is not a literal
    return e is None or type(e) in (int, str, float, bool, bytes)


class C04(runner.Prop):
    ID = 'C04'
    LEVEL = 'exploration'
    RULE = ('generated trees x cfg; every leaf accessor is applied, typed against the model and composed; '
            'non-trivial = some path has depth >= 2 through >= 2 different entry classes; distinct = sha1(case)')
    ASSUMPTIONS = [
        'custom nodes of the universe expose their children through their declared entries (FlattenedEntry nodes support obj[i])',
        'codify/eval is checked only for entry classes that generate real code and keys with literal reprs',
    ]

    def budget(self, tier):
        return 700 if tier == 'quick' else 8000

    def strategy(self, tier):
        ml = 12 if tier == 'quick' else 22
        # one stratum adds a NaN dict key: a key that is not equal to itself must still give accessors that are
        # equal (and hash equally) to the accessors another call computes for the same tree
        nan_keys = st.one_of(gen.key_descs(), gen.key_descs(), st.just(['nan']))
        return st.one_of(st.fixed_dictionaries({'t': gen.tree_descs(ml), 'cfg': gen.configs()}),
                         st.fixed_dictionaries({'t': gen.tree_descs(ml), 'cfg': gen.configs()}),
                         st.fixed_dictionaries({'t': gen.tree_descs(ml, keys=nan_keys, kinds=('dict', 'od', 'dd', 'list', 'tuple', 'cm', 'nt')),
                                                'cfg': gen.configs(predicates=['none', 'never'])}))

    def check_case(self, case, ctx):
        cfg = gen.sound_cfg(case)
        tree = gen.build(case['t'])
        kw = gen.kw(cfg)
        m = model.Model.from_cfg(cfg)
        with gen.ModeCtx(cfg):
            accs, leaves, spec = optree.tree_flatten_with_accessor(tree, **kw)
            paths = optree.tree_paths(tree, **kw)
            mleaves, mpaths, ms = m.flatten(tree)
            tps = typed_paths(ms)
            if len(accs) != len(mleaves) or len(tps) != len(accs):
                ctx.fail('count', f'{len(accs)} accessors vs {len(mleaves)} model leaves')
                return
            nontriv = False
            # the same accessors computed by the other entry points (independent computations on the same tree)
            others = {'tree_accessors': optree.tree_accessors(tree, **kw), 'spec.accessors': spec.accessors(),
                      'treespec_accessors': optree.treespec_accessors(spec),
                      'tree_flatten_with_accessor(again)': optree.tree_flatten_with_accessor(tree, **kw)[0]}
            for name, other in others.items():
                if len(other) != len(accs):
                    ctx.fail('accessor/other_route_count', f'{name}: {len(other)} vs {len(accs)}')
                    continue
                for a1, a2 in zip(accs, other):
                    if not (a1 == a2) or (a1 != a2) or hash(a1) != hash(a2) or len({a1, a2}) != 1:
                        ctx.fail('accessor/eq_hash_across_routes', f'{name}: {a1!r} vs {a2!r}')
                        break
            if gen.contains_tag(case['t'], ('nan',)):
                ctx.label('nan_key')
            for i, (acc, leaf, tp) in enumerate(zip(accs, leaves, tps)):
                # access law
                try:
                    got = acc(tree)
                except Exception as e:  # noqa: BLE001
                    ctx.fail('access/raises', f'{acc!r}: {type(e).__name__}: {e}')
                    continue
                if got is not leaf:
                    ctx.fail('access/identity', f'{acc!r} -> {got!r} expected {leaf!r}')
                if not compare.path_same(acc.path, tuple(paths[i])) or not compare.path_same(acc.path, tuple(mpaths[i])):
                    ctx.fail('path', f'acc.path {acc.path!r} paths[i] {paths[i]!r} model {mpaths[i]!r}')
                # entry typing
                classes = set()
                for ent, (e, parent) in zip(acc, tp):
                    want_cls = expected_entry_class(parent)
                    classes.add(want_cls)
                    if type(ent) is not want_cls:
                        ctx.fail('entry/class', f'{ent!r}: {type(ent).__name__} expected {want_cls.__name__} for parent {parent.type}')
                    if ent.type is not parent.type:
                        ctx.fail('entry/type', f'{ent!r}: type {ent.type} expected {parent.type}')
                    if ent.kind != compare.KIND[parent.kind]:
                        ctx.fail('entry/kind', f'{ent!r}: kind {ent.kind} expected {parent.kind}')
                    if not compare.key_same(ent.entry, e):
                        ctx.fail('entry/entry', f'{ent.entry!r} expected {e!r}')
                    if parent.kind == 'nt' and ent.field != parent.type._fields[e]:
                        ctx.fail('entry/field', f'{ent!r}: field {ent.field!r}')
                    if parent.kind == 'ss':
                        fields = [n for n, mm in vars(parent.type).items() if type(mm).__name__ == 'member_descriptor']
                        if ent.field != fields[e]:
                            ctx.fail('entry/field', f'{ent!r}: field {ent.field!r} expected {fields[e]!r}')
                if len(acc) >= 2 and len(classes) >= 2:
                    nontriv = True
                # eq / hash / rebuild
                rebuilt = optree.PyTreeAccessor(tuple(acc))
                if rebuilt != acc or hash(rebuilt) != hash(acc):
                    ctx.fail('accessor/eq_hash', f'{acc!r}')
                for ent in acc:          # an entry rebuilt from its own fields is the same entry
                    twin = type(ent)(ent.entry, ent.type, ent.kind)
                    if not (twin == ent) or (twin != ent) or hash(twin) != hash(ent):
                        ctx.fail('entry/eq_hash_rebuilt', f'{ent!r}')
                # slicing and concatenation
                for k in range(len(acc) + 1):
                    a, b = acc[:k], acc[k:]
                    if not isinstance(a, optree.PyTreeAccessor) or (a + b) != acc:
                        ctx.fail('accessor/slice_concat', f'{acc!r} k={k}')
                    elif b(a(tree)) is not leaf:
                        ctx.fail('accessor/compose', f'{acc!r} k={k}')
                # the other spellings of concatenation: entry + accessor, accessor + entry, entry + entry; an
                # accessor built from an iterator; anything else is refused
                if len(acc) >= 1:
                    combos = {'entry+accessor': lambda: acc[0] + acc[1:], 'accessor+entry': lambda: acc[:-1] + acc[-1],
                              'from_iterator': lambda: optree.PyTreeAccessor(iter(tuple(acc))),
                              'from_list': lambda: optree.PyTreeAccessor(list(acc))}
                    if len(acc) >= 2:
                        combos['entry+entry'] = lambda: (acc[0] + acc[1]) + acc[2:]
                    for cname, mk in combos.items():
                        try:
                            built = mk()
                        except Exception as e:  # noqa: BLE001
                            ctx.fail(f'accessor/{cname}_raises', f'{acc!r}: {type(e).__name__}: {e}')
                            continue
                        if not isinstance(built, optree.PyTreeAccessor) or built != acc or hash(built) != hash(acc) or built(tree) is not leaf:
                            ctx.fail(f'accessor/{cname}', f'{built!r} vs {acc!r}')
                    for bad in (lambda: acc + 5, lambda: acc[0] + 'x'):
                        try:
                            bad()
                            ctx.fail('accessor/concat_with_non_entry_accepted', f'{acc!r}')
                        except TypeError:
                            pass
                # codify
                code_ok = all(type(ent) is not optree.FlattenedEntry and key_literal(ent.entry) for ent in acc)
                if code_ok:
                    code = acc.codify('t')
                    try:
                        val = eval(code, {'t': tree})  # noqa: S307
                    except Exception as e:  # noqa: BLE001
                        ctx.fail('codify/eval_raises', f'{code!r}: {type(e).__name__}: {e}')
                    else:
                        if val is not leaf:
                            ctx.fail('codify/eval', f'{code!r} -> {val!r} expected {leaf!r}')
                    ctx.label('codify_checked')
            # distinct and prefix-free
            ps = [tuple(p) for p in paths]
            for i in range(len(ps)):
                for j in range(len(ps)):
                    if i != j and len(ps[i]) <= len(ps[j]) and compare.path_same(ps[i], ps[j][:len(ps[i])]):
                        ctx.fail('paths/prefix_free', f'{ps[i]!r} is a prefix of {ps[j]!r}')
            # equal accessors hash equally (all pairs)
            for i in range(len(accs)):
                for j in range(i + 1, len(accs)):
                    if accs[i] == accs[j]:
                        ctx.fail('accessor/distinct', f'{accs[i]!r} == {accs[j]!r}')
            ctx.nontrivial(nontriv)
            if gen.contains_tag(case['t'], ('cq', 'cp', 'cg', 'cu', 'ci')):
                ctx.label('auto_entry_dispatch')
            if gen.contains_tag(case['t'], ('dc',)) and cfg['ns'] == U.NS:
                ctx.label('dataclass_entry')
            if gen.contains_tag(case['t'], ('ss',)):
                ctx.label('structseq_entry')


PROP = C04()
if __name__ == '__main__':
    runner.main(PROP)
