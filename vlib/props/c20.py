"""C20  tree_ravel and its unravel function are mutually inverse (inverse pair + reference concat),
for the numpy / jax / torch integrations (one backend per shard)."""
from __future__ import annotations

import os

import numpy as np
import optree
from hypothesis import strategies as st

from vlib import gen, model, runner

DTYPES = ['bool', 'int8', 'int16', 'int32', 'int64', 'uint8', 'float16', 'float32', 'float64',
          'complex64', 'complex128']
BACKENDS = ['numpy', 'jax', 'torch']


class Backend:
    def __init__(self, name):
        self.name = name
        if name == 'numpy':
            import optree.integration.numpy as mod
            self.mod = mod
        elif name == 'jax':
            import jax
            jax.config.update('jax_enable_x64', True)
            import jax.numpy as jnp
            import optree.integration.jax as mod
            self.mod, self.jnp, self.jax = mod, jnp, jax
        else:
            import torch
            import optree.integration.torch as mod
            self.mod, self.torch = mod, torch

    def array(self, npa):
        if self.name == 'numpy':
            return npa
        if self.name == 'jax':
            if npa.ndim == 0 and npa.dtype.kind in 'if' and int(npa.item()) % 2 == 1:
                # a *weakly typed* jax scalar (built from a Python number): its dtype still takes part in the promotion
                return self.jnp.asarray(npa.item())
            return self.jnp.asarray(npa)
        if not npa.ndim:
            return self.torch.tensor(npa.item(), dtype=self.tdtype(npa.dtype))
        if npa.ndim >= 2 and not npa.flags['C_CONTIGUOUS']:
            # keep the non-contiguous layout: a contiguous tensor of the reversed shape, permuted back
            rev = tuple(reversed(range(npa.ndim)))
            return self.torch.from_numpy(np.ascontiguousarray(npa.transpose())).permute(*rev)
        return self.torch.from_numpy(np.ascontiguousarray(npa))

    def tdtype(self, npdtype):
        return getattr(self.torch, np.dtype(npdtype).name)

    def to_numpy(self, a):
        if self.name == 'torch':
            return a.detach().cpu().numpy()
        return np.asarray(a)

    def dtype_name(self, a):
        if self.name == 'torch':
            return str(a.dtype).replace('torch.', '')
        return np.dtype(a.dtype).name

    def promote(self, names):
        """the backend's own promotion table (reference for the common dtype)"""
        if self.name == 'numpy':
            return np.result_type(*[np.dtype(n) for n in names]).name
        if self.name == 'jax':
            out = self.jnp.dtype(names[0])
            for n in names[1:]:
                out = self.jnp.promote_types(out, self.jnp.dtype(n))
            return np.dtype(out).name
        out = getattr(self.torch, names[0])
        for n in names[1:]:
            out = self.torch.promote_types(out, getattr(self.torch, n))
        return str(out).replace('torch.', '')

    def default_empty(self):
        return {'numpy': 'float64', 'jax': 'float64', 'torch': 'float32'}[self.name]


def np_leaf(desc):
    _, dt, shape, seed = desc
    size = int(np.prod(shape)) if shape else 1
    base = (np.arange(size) * 3 + seed) % 5            # small values: exact in every dtype
    if dt == 'bool':
        a = (base % 2).astype(bool)
    elif dt.startswith('complex'):
        a = (base + 1j * ((base + 1) % 3)).astype(dt)
    else:
        a = base.astype(dt)
    a = a.reshape(shape)
    # memory layout is part of "every array": rank >= 2 leaves are C-contiguous, Fortran-ordered or a transposed
    # view (same logical values either way; the oracle only ever looks at the logical row-major order)
    if a.ndim >= 2 and seed % 3 == 1:
        a = np.asfortranarray(a)
    elif a.ndim >= 2 and seed % 3 == 2:
        a = np.ascontiguousarray(a.transpose()).transpose()
    return a


ARR = st.tuples(st.sampled_from(DTYPES), st.lists(st.sampled_from([0, 1, 2, 3]), max_size=3), st.integers(0, 4)).map(
    lambda t: ['arr', t[0], t[1], t[2]])
ARR_SAME = lambda dt: st.tuples(st.lists(st.sampled_from([0, 1, 2, 3]), max_size=3), st.integers(0, 4)).map(  # noqa: E731
    lambda t: ['arr', dt, t[0], t[1]])
KINDS = ('tuple', 'list', 'dict', 'od', 'dd', 'deque', 'nt', 'cg', 'cs')   # node types that are nodes in every namespace


class C20(runner.Prop):
    ID = 'C20'
    LEVEL = 'exploration'
    RULE = ('generated pytrees whose leaves are arrays of rank 0-3 with dims in {0,1,2,3} and dtypes from bool/int8-64/uint8/'
            'float16-64/complex64-128 (mixed, and single-dtype trees), x none_is_leaf x namespace; backend = shard index mod 3 '
            '(numpy, jax with x64, torch); non-trivial = >=2 leaves with >=2 distinct dtypes, or a zero-size / rank-0 leaf; '
            'distinct = sha1(case, backend)')
    ASSUMPTIONS = [
        "the backend's own promotion function is the reference for the common dtype",
        'values are small integers (exactly representable in every dtype), so casts to the promoted dtype are exact and no tolerance is needed',
        'the reverse law ravel(unravel(v)) == v uses v with values in {0, 1}',
    ]
    tree_keys = ('t',)
    backend = None

    def budget(self, tier):
        return 250 if tier == 'quick' else 2500

    def strategy(self, tier):
        ml = 8 if tier == 'quick' else 12
        mixed = gen.tree_descs(ml, leaf=ARR, kinds=KINDS, keys=gen.key_descs(total_only=True), min_leaves=2)
        single = st.sampled_from(DTYPES).flatmap(
            lambda dt: gen.tree_descs(ml, leaf=ARR_SAME(dt), kinds=KINDS, keys=gen.key_descs(total_only=True)))
        return st.fixed_dictionaries({'t': st.one_of(mixed, mixed, single),
                                      'nil': st.booleans(), 'ns': st.sampled_from(['', 'vns'])})

    def get_backend(self, ctx):
        if C20.backend is None:
            name = BACKENDS[ctx.shard % 3] if ctx is not None else os.environ.get('VERIF_BACKEND', 'numpy')
            C20.backend = Backend(name)
            gen.ARRAY_FACTORY = lambda d: C20.backend.array(np_leaf(d))
        return C20.backend

    def check_case(self, case, ctx):
        if 'backend' in case and C20.backend is None:
            C20.backend = Backend(case['backend'])
            gen.ARRAY_FACTORY = lambda d: C20.backend.array(np_leaf(d))
        B = self.get_backend(ctx)
        case.setdefault('backend', B.name)
        kw = {'none_is_leaf': case['nil'], 'namespace': case['ns']}
        tree = gen.build(case['t'])
        leaves, spec = optree.tree_flatten(tree, **kw)
        arrs = [x for x in leaves if hasattr(x, 'dtype') and hasattr(x, 'shape')]
        if len(arrs) != len(leaves):
            # None as a leaf / a value auto-inserted by a defaultdict factory is not an array:
            # outside "pytree of arrays"
            ctx.label('non_array_leaf_skipped')
            return
        names = [B.dtype_name(a) for a in leaves]
        ctx.nontrivial((len(leaves) >= 2 and len(set(names)) >= 2) or
                       any(B.to_numpy(a).size == 0 or B.to_numpy(a).ndim == 0 for a in leaves))
        ctx.label(f'backend:{B.name}', 'mixed_dtypes' if len(set(names)) > 1 else 'single_dtype')
        try:
            flat, unravel = B.mod.tree_ravel(tree, **kw)
        except Exception as e:  # noqa: BLE001
            ctx.fail('ravel/raises', f'{type(e).__name__}: {e}')
            return
        nflat = B.to_numpy(flat)
        if nflat.ndim != 1:
            ctx.fail('ravel/not_1d', f'shape {nflat.shape}')
            return
        if not leaves:
            ctx.label('empty_tree')
            if nflat.shape != (0,):
                ctx.fail('ravel/empty_tree', f'shape {nflat.shape}')
            back = unravel(flat)
            if not (optree.tree_structure(back, **kw) == spec):
                ctx.fail('unravel/empty_structure', f'{back!r}')
            return
        want_dtype = B.promote(names)
        if B.dtype_name(flat) != want_dtype:
            ctx.fail('ravel/dtype', f'{B.dtype_name(flat)} expected {want_dtype} for leaves {names}')
            return
        want = np.concatenate([B.to_numpy(a).ravel().astype(want_dtype) for a in leaves])
        if nflat.shape != want.shape or not np.array_equal(nflat, want):
            ctx.fail('ravel/values', f'{nflat!r} expected {want!r}')
        # unravel(ravel(t)) == t
        try:
            back = unravel(flat)
        except Exception as e:  # noqa: BLE001
            ctx.fail('unravel/raises', f'{type(e).__name__}: {e}')
            return
        bl, bs = optree.tree_flatten(back, **kw)
        if not (bs == spec):
            ctx.fail('unravel/structure', f'{bs} vs {spec}')
            return
        d = model.same_tree(tree, back, leaf_eq=lambda x, y: True)
        if d and 'leaf' not in d:
            ctx.fail('unravel/tree_shape', d)
        for i, (a, b) in enumerate(zip(leaves, bl)):
            na, nb = B.to_numpy(a), B.to_numpy(b)
            if na.shape != nb.shape or B.dtype_name(a) != B.dtype_name(b) or not np.array_equal(na, nb):
                ctx.fail('unravel/leaf', f'leaf {i}: {nb!r} ({B.dtype_name(b)}) expected {na!r} ({B.dtype_name(a)})')
                break
        # ravel(unravel(v)) == v for v in {0,1}^n of the promoted dtype
        n = nflat.shape[0]
        v_np = (np.arange(n) % 2).astype(want_dtype)
        v = B.array(v_np) if n else flat
        try:
            t2 = unravel(v)
            flat2, _ = B.mod.tree_ravel(t2, **kw)
            if not np.array_equal(B.to_numpy(flat2), v_np) or B.dtype_name(flat2) != want_dtype:
                ctx.fail('inverse/ravel_unravel', f'{B.to_numpy(flat2)!r} expected {v_np!r}')
            l2 = optree.tree_leaves(t2, **kw)
            off = 0
            for a, b in zip(leaves, l2):
                na, nb = B.to_numpy(a), B.to_numpy(b)
                if nb.shape != na.shape or B.dtype_name(b) != B.dtype_name(a) or \
                        not np.array_equal(nb.ravel().astype(want_dtype), v_np[off:off + na.size]):
                    ctx.fail('inverse/slices', f'{nb!r} expected slice {v_np[off:off + na.size]!r} shape {na.shape} dtype {B.dtype_name(a)}')
                    break
                off += na.size
        except Exception as e:  # noqa: BLE001
            ctx.fail('inverse/raises', f'{type(e).__name__}: {e}')
        # rejections
        for bad_shape in ((n + 1,), (n, 1), ()):
            try:
                unravel(B.array(np.zeros(bad_shape, dtype=want_dtype)))
                ctx.fail('reject/wrong_shape_accepted', f'{bad_shape} for expected ({n},)')
            except ValueError:
                pass
            except Exception as e:  # noqa: BLE001
                ctx.fail('reject/wrong_shape_exception', f'{bad_shape}: {type(e).__name__}: {e}')
        if len(set(names)) > 1:
            other = 'float32' if want_dtype != 'float32' else 'float64'
            try:
                unravel(B.array(np.zeros((n,), dtype=other)))
                ctx.fail('reject/wrong_dtype_accepted', f'{other} for expected {want_dtype}')
            except ValueError:
                pass
            except Exception as e:  # noqa: BLE001
                ctx.fail('reject/wrong_dtype_exception', f'{type(e).__name__}: {e}')


PROP = C20()
if __name__ == '__main__':
    runner.main(PROP)
