"""C01  flatten -> unflatten reconstructs the same tree (round trip + exact structural equality)."""
from __future__ import annotations

import optree
from hypothesis import strategies as st

from vlib import gen, model, runner
from vlib import universe as U


def classes_of(desc, acc):
    """Distribution classes of a tree description."""
    if not isinstance(desc, list) or not desc or not isinstance(desc[0], str):
        return
    t = desc[0]
    if t in ('dict', 'dd'):
        items = desc[1] if t == 'dict' else desc[2]
        ks = [gen.build_key(k) for k, _ in items]
        if len(ks) >= 2 and model.ref_sorted(ks) != ks:
            acc.add('dict_unsorted_insertion')
        if any(k[0] in ('K', 'fs') for k, _ in items) or len({type(k) for k in ks}) > 1:
            acc.add('mixed_or_unsortable_keys')
    if t in ('dict', 'od', 'dd', 'deque'):
        hist = desc[{'dict': 2, 'od': 2, 'dd': 3, 'deque': 3}[t]]
        if hist:
            acc.add('history_modified')
            if any(h[0] == 'mte' for h in hist):
                acc.add('od_move_to_end')
    if t == 'deque' and desc[2] == 'len' and desc[1]:
        acc.add('deque_at_maxlen')
    if t in ('cg', 'cn', 'cs', 'cm', 'cu', 'ci', 'dc', 'partial', 'cq', 'cp', 'dci', 'ntc', 'cl', 'dsn', 'co'):
        acc.add('custom_node')
    if t in ('nt', 'ss'):
        acc.add('namedtuple_or_structseq')
    for x in desc[1:]:
        if isinstance(x, list):
            for y in x:
                classes_of(y, acc)
                if isinstance(y, list):
                    for z in y:
                        classes_of(z, acc)
            classes_of(x, acc)


def depth_of(desc):
    if not isinstance(desc, list):
        return 0
    sub = [depth_of(x) for x in desc if isinstance(x, list)]
    return (1 if desc and isinstance(desc[0], str) else 0) + (max(sub) if sub else 0)


class C01(runner.Prop):
    ID = 'C01'
    LEVEL = 'exploration'
    RULE = ('Hypothesis-generated JSON tree descriptions (all built-in node kinds, universe custom '
            'nodes, construction histories) x cfg (none_is_leaf, namespace, predicate, dict-order mode); '
            'non-trivial = the flattened tree has >=1 internal node and >=2 leaves; distinct = sha1 of (description, cfg)')
    ASSUMPTIONS = [
        'is_leaf predicates are functions of type/shape/leaf value only (identity-based predicates make the property itself void for rebuilt trees)',
        'custom unflatten functions of the universe rebuild an equal object (harness code, reviewed)',
        'exact equality oracle same_tree() is harness code independent of optree',
    ]

    def budget(self, tier):
        return 900 if tier == 'quick' else 12000

    def strategy(self, tier):
        ml = 12 if tier == 'quick' else 24
        general = st.fixed_dictionaries({'t': st.one_of(gen.tree_descs(ml), gen.tree_descs(ml), gen.tree_descs(ml),
                                                        gen.with_childless_twins(gen.tree_descs(max(3, ml // 2)))),
                                         'cfg': gen.configs()})
        # stratified: dict-heavy trees with histories (the classes the property text singles out)
        dicty = st.fixed_dictionaries({
            't': gen.tree_descs(ml, kinds=('dict', 'od', 'dd', 'deque', 'list', 'cg', 'cn')),
            'cfg': gen.configs()})
        # stratum: deep nesting up to (just below) the depth limit, every wrapper kind
        wrap_kinds = st.lists(st.sampled_from(['list', 'tuple', 'dict', 'od', 'dd', 'deque', 'nt', 'cg', 'ci']), min_size=1, max_size=4)
        deep = st.fixed_dictionaries({
            't': st.tuples(wrap_kinds, st.sampled_from([20, 200, 700, 985, 990]), gen.tree_descs(6, max_depth=4)).map(
                lambda t: ['wrap', ','.join(t[0]), t[1], t[2]]),
            'cfg': gen.configs(predicates=['none', 'never', 'leaf_even', 'is_nt2'])})
        # stratum: custom nodes (incl. the optree dataclass) whose metadata is an identity-compared object - the
        # rebuilt node must carry that very object
        objmeta = st.fixed_dictionaries({
            't': gen.tree_descs(ml, kinds=('dc', 'cn', 'cg', 'dict', 'list', 'tuple', 'od')).map(gen.with_object_metadata),
            'cfg': gen.configs()})
        # stratum: dicts whose keys make both sort attempts fail half-way (the order is then the insertion order,
        # and every leaf must come back under its own key)
        halfsort = st.fixed_dictionaries({'t': gen.partially_comparable_dicts(), 'cfg': gen.configs()})
        return st.one_of(general, dicty, deep, objmeta, halfsort)

    def check_case(self, case, ctx):
        cfg = gen.sound_cfg(case)
        tree = gen.build(case['t'])
        kw = gen.kw(cfg)
        m = model.Model.from_cfg(cfg)
        with gen.ModeCtx(cfg):
            leaves, spec = optree.tree_flatten(tree, **kw)
            n = len(leaves)
            ms = m.structure(tree)
            ctx.nontrivial(spec.num_nodes > spec.num_leaves and n >= 2)
            acc = set()
            classes_of(case['t'], acc)
            if case['t'][0] == 'wrap':
                acc.add('deep_nesting>=200' if case['t'][2] >= 200 else 'deep_nesting')
            if depth_of(case['t']) >= 5:
                acc.add('depth>=4')
            if cfg['pred'] != 'none' and any(
                    gen.PREDICATES[cfg['pred']](x) and model.Model(cfg['nil'], cfg['ns'], None, gen.insertion_mode(cfg)).one_level(x) is not None
                    for x in leaves):
                acc.add('predicate_fired_on_container')
            if gen.insertion_mode(cfg):
                acc.add('insertion_mode')
            ctx.label(*acc)

            # (1) rebuild is exactly the same tree
            for route, fn in (('tree_unflatten', lambda: optree.tree_unflatten(spec, leaves)),
                              ('spec.unflatten', lambda: spec.unflatten(iter(leaves))),
                              ('tree_map_identity', lambda: optree.tree_map(lambda x: x, tree, **kw))):
                try:
                    rebuilt = fn()
                except Exception as e:  # noqa: BLE001
                    ctx.fail(f'roundtrip/{route}/raises', f'{type(e).__name__}: {e}')
                    continue
                diff = model.same_tree(tree, rebuilt)
                if diff:
                    ctx.fail(f'roundtrip/{route}/same_tree', diff)
                    continue
                # (2) flatten(rebuilt): identical leaves, equal spec, equal hash
                l2, s2 = optree.tree_flatten(rebuilt, **kw)
                if len(l2) != n or any(a is not b for a, b in zip(leaves, l2)):
                    ctx.fail(f'reflatten/{route}/leaves', f'{leaves!r} vs {l2!r}')
                if not (s2 == spec) or (s2 != spec):
                    ctx.fail(f'reflatten/{route}/spec_eq', f'{spec} vs {s2}')
                elif hash(s2) != hash(spec):
                    ctx.fail(f'reflatten/{route}/hash', f'{spec} vs {s2}')
            # (3) n fresh leaf-typed tokens survive unflatten -> flatten exactly
            toks = [U.Leaf(1001 + 2 * i) for i in range(n)]   # odd n => not hit by 'leaf_even'
            t2 = spec.unflatten(toks)
            l3, s3 = optree.tree_flatten(t2, **kw)
            if len(l3) != n or any(a is not b for a, b in zip(toks, l3)):
                ctx.fail('tokens/leaves', f'{toks!r} vs {l3!r}')
            if not (s3 == spec):
                ctx.fail('tokens/spec_eq', f'{spec} vs {s3}')
            # (4) model agreement on leaf count (cheap cross-check that the generator is sane)
            if ms.num_leaves() != n:
                ctx.fail('model/num_leaves', f'model {ms.num_leaves()} engine {n} spec {spec}')


PROP = C01()
if __name__ == '__main__':
    runner.main(PROP)
