"""C13  insertion-ordered dict mode is scoped to its namespace and with-block
(model-based history testing: exhaustive op sequences + generated ones, observation at every step)."""
from __future__ import annotations

import itertools
from collections import OrderedDict, defaultdict

import optree
from hypothesis import strategies as st

from vlib import compare, gen, model, runner
from vlib import universe as U

GLOBAL = U.GLOBAL
NS_ARG = {'G': GLOBAL, 'a': 'a', 'b': 'b'}
NS_KEY = {'G': '', 'a': 'a', 'b': 'b'}
OBS_NS = ('', 'a', 'b', 'c')


class Boom(Exception):
    pass


class BaseBoom(BaseException):
    """an exception that is not an Exception subclass (like KeyboardInterrupt / GeneratorExit / CancelledError)"""


def obs_tree():
    L = U.Leaf
    return [{'b': L(1), 'a': L(2), 'c': {'z': L(3), 'y': L(4)}},
            defaultdict(int, {'z': L(5), 'y': L(6)}),
            OrderedDict([('q', L(7)), ('p', L(8))]),
            U.CG({'n': L(9), 'm': L(10)}, defaultdict(list, {2: L(11), 1: L(12)})),
            {2: L(13), 1: L(14), 'k': L(15)}]


OPS = [['enter', m, n] for m in (True, False) for n in ('G', 'a', 'b')] + [['exit', 'normal'], ['exit', 'raise'], ['exit', 'raise_base'], ['exit', 'generator_close']]


def op_strategy():
    return st.one_of(
        st.tuples(st.just('enter'), st.booleans(), st.sampled_from(['G', 'a', 'b'])).map(list),
        st.tuples(st.just('enter'), st.booleans(), st.sampled_from(['G', 'a', 'b'])).map(list),
        st.sampled_from([['exit', 'normal'], ['exit', 'raise'], ['exit', 'raise_base']]),
        st.tuples(st.just('exit_at'), st.integers(0, 3), st.sampled_from(['normal', 'raise', 'raise_base'])).map(list),
    )


@st.composite
def nested_histories(draw):
    """3-5 nested blocks over only two namespaces (so a namespace is re-entered around / inside the other one, the
    global one more often than not), closed in LIFO order, mostly normally; then possibly one more block"""
    pair = draw(st.sampled_from([('a', 'G'), ('a', 'G'), ('b', 'G'), ('a', 'b')]))
    k = draw(st.integers(3, 5))
    hist = [['enter', draw(st.booleans()), draw(st.sampled_from(pair))] for _ in range(k)]
    for _ in range(draw(st.integers(1, k))):
        hist.append(['exit', draw(st.sampled_from(['normal', 'normal', 'normal', 'raise', 'raise_base']))])
    if draw(st.booleans()):
        hist += [['enter', draw(st.booleans()), draw(st.sampled_from(pair))], ['exit', 'normal']]
    return hist


class C13(runner.Prop):
    ID = 'C13'
    LEVEL = 'model_checking'
    RULE = ('operation sequences over enter(True|False, N) / exit / raising exit (N in {GLOBAL, a, b}, nesting <= 4), '
            'enumerated exhaustively up to length 4 (quick) / 5 (thorough), plus Hypothesis-generated sequences up to length 10 '
            'that also close blocks of *different* namespaces out of LIFO order and flatten a generated dict-bearing tree; after '
            'EVERY step the dict order seen by 5 traversals / 4 constructors / the Python registry lookup is compared, in 4 '
            'observing namespaces, with a set-based model of the mode; state = (set of ordered namespaces, stack of saved flags); '
            'non-trivial = history with nesting >= 2 or an exception exit or a False-inside-True block; distinct = sha1(history)')
    ASSUMPTIONS = [
        'model: mode(N) = N in S or GLOBAL in S; enter saves N\'s own flag and sets/clears it; exit restores the saved flag',
        'out-of-LIFO exits are only generated for blocks over pairwise different namespaces (the property quantifies over those)',
        'single thread (the mode switch is documented as not thread-safe)',
    ]
    tree_keys = ('t',)

    def budget(self, tier):
        return 300 if tier == 'quick' else 3000

    def strategy(self, tier):
        return st.fixed_dictionaries({
            'hist': st.one_of(st.lists(op_strategy(), min_size=1, max_size=10), nested_histories()),
            't': gen.tree_descs(8, kinds=('dict', 'dd', 'od', 'list', 'tuple', 'cg', 'cn', 'deque'),
                                keys=gen.key_descs(total_only=True))})

    def shrink_extra(self, case):
        for i in range(len(case['hist'])):
            c = dict(case)
            c['hist'] = case['hist'][:i] + case['hist'][i + 1:]
            if c['hist']:
                yield c

    def check_case(self, case, ctx):
        S = set()               # model: namespaces ('' = global) in insertion-ordered mode
        open_blocks = []        # (cm, nskey, saved_flag)
        states = set()
        nested = exc_exit = false_in_true = False
        tree = gen.build(case['t']) if 't' in case else None
        try:
            for step, op in enumerate(case['hist']):
                if op[0] == 'enter':
                    if len(open_blocks) >= 4:
                        continue
                    _, mode, ns = op
                    key = NS_KEY[ns]
                    cm = optree.dict_insertion_ordered(mode, namespace=NS_ARG[ns])
                    cm.__enter__()
                    open_blocks.append((cm, key, key in S))
                    if not mode and (key in S or '' in S):
                        false_in_true = True
                    (S.add if mode else S.discard)(key)
                    if len(open_blocks) >= 2:
                        nested = True
                else:
                    if not open_blocks:
                        continue
                    if op[0] == 'exit':
                        idx, how = len(open_blocks) - 1, op[1]
                    else:
                        idx, how = op[1] % len(open_blocks), op[2]
                        # out-of-order exits only among pairwise different namespaces
                        later = [k for _c, k, _s in open_blocks[idx:]]
                        if len(set(later)) != len(later):
                            idx = len(open_blocks) - 1
                    cm, key, saved = open_blocks.pop(idx)
                    self.close(cm, how, ctx, step)
                    exc_exit = exc_exit or how != 'normal'
                    (S.add if saved else S.discard)(key)
                states.add((frozenset(S), tuple((k, s) for _c, k, s in open_blocks)))
                self.observe(S, f'step {step} {op}', ctx, tree if step == len(case['hist']) - 1 else None)
        finally:
            while open_blocks:
                cm, key, saved = open_blocks.pop()
                try:
                    cm.__exit__(None, None, None)
                except Exception:  # noqa: BLE001
                    pass
                (S.add if saved else S.discard)(key)
        # after everything is closed every namespace is back to the initial (sorted) mode
        if S:
            ctx.fail('harness/model_not_empty', repr(S))
        self.observe(set(), 'after all blocks closed', ctx, tree)
        ctx.nontrivial(nested or exc_exit or false_in_true)
        ctx.label(f'len={min(len(case["hist"]), 5)}')
        for name, flag in (('nested', nested), ('exception_exit', exc_exit), ('false_inside_true', false_in_true)):
            if flag:
                ctx.label(name)
        self._states = getattr(self, '_states', set()) | states
        ctx.extra_cov['states'] = len(self._states)          # distinct (mode set, saved-flag stack) model states
        ctx.extra_cov['transitions'] = ctx.extra_cov.get('transitions', 0) + len(case['hist'])
        ctx.extra_cov['traces_validated_against_impl'] = ctx.extra_cov.get('traces_validated_against_impl', 0) + 1

    def close(self, cm, how, ctx, step):
        if how == 'normal':
            cm.__exit__(None, None, None)
            return
        if how == 'generator_close':
            # the way a block is left when a generator holding it is closed / garbage collected
            how_exc = GeneratorExit
        else:
            how_exc = Boom if how == 'raise' else BaseBoom
        try:
            raise how_exc(step)
        except (Boom, BaseBoom, GeneratorExit) as e:
            try:
                swallowed = cm.__exit__(type(e), e, e.__traceback__)
            except (Boom, BaseBoom, GeneratorExit) as e2:
                swallowed = False
                if e2 is not e:
                    ctx.fail('exit/exception_replaced', repr(e2))
            if swallowed:
                ctx.fail('exit/exception_swallowed', f'step {step}')

    def observe(self, S, where, ctx, tree):
        base = obs_tree()
        for ns in OBS_NS:
            ins = (ns in S) or ('' in S)
            # the engine's own report
            if bool(optree._C.is_dict_insertion_ordered(ns)) != ins:
                ctx.fail('mode/flag', f'{where}: namespace {ns!r}: engine says {not ins}, model {ins}')
            for t, tag in ((base, 'fixed'),) + (((tree, 'generated'),) if tree is not None else ()):
                for nil in (False, True):
                    m = model.Model(nil, ns, None, ins)
                    mleaves, mpaths, ms = m.flatten(t)
                    kw = {'none_is_leaf': nil, 'namespace': ns}
                    leaves, spec = optree.tree_flatten(t, **kw)
                    p2, l2, s2 = optree.tree_flatten_with_path(t, **kw)
                    l3 = list(optree.tree_iter(t, **kw))
                    for name, l in (('flatten', leaves), ('flatten_with_path', l2), ('iter', l3)):
                        if not compare.same_leaves(l, mleaves):
                            ctx.fail(f'order/{name}', f'{where}: ns={ns!r} ({tag}): {l!r} expected {mleaves!r} (insertion={ins})')
                    if not compare.paths_same(p2, mpaths) or not compare.paths_same(spec.paths(), mpaths):
                        ctx.fail('order/paths', f'{where}: ns={ns!r}: {p2!r} expected {mpaths!r}')
                    r = compare.spec_vs_model(spec, ms)
                    if r:
                        ctx.fail('order/spec', f'{where}: ns={ns!r}: {r}')
                    # a treespec made while the namespace's *own* mode is on remembers that namespace (what is done with
                    # it later - transposing, matching rests - must use the same dict order), whichever entry point made it
                    s3 = optree.tree_structure(t, **kw)
                    tags = {'flatten': spec.namespace, 'flatten_with_path': s2.namespace, 'tree_structure': s3.namespace}
                    if len(set(tags.values())) != 1 or (ns and ns in S and spec.namespace != ns):
                        ctx.fail('mode/namespace_tag', f'{where}: ns={ns!r} own mode {ns in S}: recorded namespaces {tags}')
                    d = model.same_tree(t, spec.unflatten(leaves))
                    if d:
                        ctx.fail('roundtrip', f'{where}: ns={ns!r}: {d}')
            # constructors
            leaf = optree.treespec_leaf()
            want = ['b', 'a'] if ins else ['a', 'b']
            for name, s in (('treespec_dict', optree.treespec_dict({'b': leaf, 'a': leaf}, namespace=ns)),
                            ('treespec_dict_items', optree.treespec_dict([('b', leaf), ('a', leaf)], namespace=ns)),
                            ('treespec_defaultdict', optree.treespec_defaultdict(int, {'b': leaf, 'a': leaf}, namespace=ns)),
                            ('treespec_from_collection', optree.treespec_from_collection({'b': leaf, 'a': leaf}, namespace=ns)),
                            ('treespec_from_collection_dd', optree.treespec_from_collection(defaultdict(int, {'b': leaf, 'a': leaf}), namespace=ns))):
                if s.entries() != want:
                    ctx.fail(f'constructor/{name}', f'{where}: ns={ns!r}: entries {s.entries()} expected {want}')
            s = optree.treespec_ordereddict([('b', leaf), ('a', leaf)], namespace=ns)
            if s.entries() != ['b', 'a']:
                ctx.fail('constructor/treespec_ordereddict', f'{where}: {s.entries()}')
            # Python-visible registry lookup
            for cls, mk in ((dict, lambda: {'b': 1, 'a': 2}), (defaultdict, lambda: defaultdict(int, {'b': 1, 'a': 2}))):
                for how, h in (('get(cls)', optree.register_pytree_node.get(cls, namespace=ns)),
                               ('get()[cls]', optree.register_pytree_node.get(namespace=ns)[cls])):
                    out = h.flatten_func(mk())
                    keys = list(out[2])
                    if keys != want:
                        ctx.fail('python_registry/dict_handler', f'{where}: ns={ns!r} {how} {cls.__name__}: entries {keys} expected {want}')
            one = optree.tree_flatten_one_level({'b': 1, 'a': 2}, namespace=ns)
            if list(one.entries) != want:
                ctx.fail('python_registry/one_level', f'{where}: ns={ns!r}: {one.entries}')
            h = optree.register_pytree_node.get(OrderedDict, namespace=ns)
            if list(h.flatten_func(OrderedDict([('b', 1), ('a', 2)]))[2]) != ['b', 'a']:
                ctx.fail('python_registry/ordereddict', f'{where}: ns={ns!r}')

    def extra(self, ctx):
        maxlen = 4 if ctx.tier == 'quick' else 5
        count = 0
        n = 0
        for L in range(1, maxlen + 1):
            for seq in itertools.product(range(len(OPS)), repeat=L):
                # prune ill-formed sequences (exit without an open block / nesting > 4) so that each
                # enumerated history is distinct in effect
                depth = 0
                ok = True
                for i in seq:
                    if OPS[i][0] == 'enter':
                        depth += 1
                        if depth > 4:
                            ok = False
                            break
                    else:
                        if depth == 0:
                            ok = False
                            break
                        depth -= 1
                if not ok:
                    continue
                n += 1
                if n % ctx.nshards != ctx.shard:
                    continue
                ctx.run_case({'hist': [list(OPS[i]) for i in seq], 'exhaustive': L})
                count += 1
        ctx.extra_cov['exhaustive_histories'] = count
        ctx.extra_cov['exhaustive_len_max'] = maxlen


PROP = C13()
if __name__ == '__main__':
    runner.main(PROP)
