"""C11  pickling a treespec preserves it exactly (same process, fresh process, registry histories)."""
from __future__ import annotations

import base64
import copy
import json
import os
import pickle
import subprocess
import sys

import optree
from hypothesis import strategies as st

from vlib import compare, gen, model, runner
from vlib import universe as U


def observe(spec):
    """Everything observable about a treespec, in comparable form."""
    accs = spec.accessors()
    return {
        'repr': repr(spec),
        'counts': (spec.num_leaves, spec.num_nodes, spec.num_children),
        'flags': (spec.none_is_leaf, spec.namespace),
        'paths': [tuple(p) for p in spec.paths()],
        'acc': [[(type(e).__name__, e.type, e.kind) for e in a] for a in accs],
        'acc_paths': [a.path for a in accs],
        'entries': list(spec.entries()),
        'children': [repr(c) for c in spec.children()],
        'kind': spec.kind, 'type': spec.type,
    }


def obs_diff(a, b):
    for k in a:
        if k in ('paths', 'acc_paths'):
            if not compare.paths_same(a[k], b[k]):
                return f'{k}: {a[k]!r} vs {b[k]!r}'
        elif k == 'entries':
            if not compare.path_same(tuple(a[k]), tuple(b[k])):
                return f'{k}: {a[k]!r} vs {b[k]!r}'
        elif a[k] != b[k]:
            return f'{k}: {a[k]!r} vs {b[k]!r}'
    return None


def compare_loaded(loaded, ref, ms, ctx, tag):
    if not (loaded == ref) or (loaded != ref):
        ctx.fail(f'{tag}/eq', f'{loaded} vs {ref}')
        return
    if hash(loaded) != hash(ref):
        ctx.fail(f'{tag}/hash', f'{loaded}')
    d = obs_diff(observe(loaded), observe(ref))
    if d:
        ctx.fail(f'{tag}/observe', d)
    n = ref.num_leaves
    toks = [U.Leaf(1001 + 2 * i) for i in range(n)]
    try:
        t1 = loaded.unflatten(toks)
    except Exception as e:  # noqa: BLE001
        ctx.fail(f'{tag}/unflatten_raises', f'{type(e).__name__}: {e}')
        return
    want = model.rebuild(ms, iter(toks))
    d = model.same_tree(want, t1)
    if d:
        ctx.fail(f'{tag}/unflatten', d)


class Worker:
    """a fresh interpreter that made the same registrations (imports vlib.universe)"""

    def __init__(self):
        self.p = subprocess.Popen([sys.executable, '-m', 'vlib.props.c11', '--worker'],
                                  stdin=subprocess.PIPE, stdout=subprocess.PIPE, text=True, bufsize=1)

    def ask(self, req):
        self.p.stdin.write(json.dumps(req) + '\n')
        self.p.stdin.flush()
        line = self.p.stdout.readline()
        if not line:
            raise RuntimeError(f'worker died (exit {self.p.poll()})')
        return json.loads(line)

    def close(self):
        try:
            self.p.stdin.close()
            self.p.wait(timeout=10)
        except Exception:  # noqa: BLE001
            self.p.kill()


class C11(runner.Prop):
    ID = 'C11'
    LEVEL = 'exploration'
    RULE = ('generated trees x cfg x pickle protocols 0-5 (and copy/deepcopy); every 3rd case is additionally loaded in a fresh '
            'interpreter that imported the same universe, under a loader registry history (same / victim type unregistered '
            'before load / unregistered then re-registered); specs made inside insertion-ordered blocks are loaded outside; '
            'non-trivial = spec has a dict or custom node and >=2 leaves; distinct = sha1(case)')
    ASSUMPTIONS = [
        'hash equality is only compared inside one process (type addresses / str hashes differ between interpreters)',
        'hostile hand-crafted pickle payloads are out of scope (no listed property promises robustness against them)',
        'the worker rebuilds the same tree from the same JSON description with the same universe module',
    ]
    tree_keys = ('t',)
    _worker = None

    def budget(self, tier):
        return 400 if tier == 'quick' else 4000

    def strategy(self, tier):
        ml = 10 if tier == 'quick' else 18
        return st.fixed_dictionaries({
            't': st.one_of(gen.tree_descs(ml), gen.tree_descs(ml), gen.tree_descs(ml), gen.with_childless_twins(gen.tree_descs(max(3, ml // 2)))),
            'cfg': gen.configs(),
            'proto': st.integers(0, pickle.HIGHEST_PROTOCOL),
            'remote': st.sampled_from([None, None, 'same', 'missing', 'rereg']),
            'victim': st.sampled_from(sorted(U.VICTIMS))})

    def worker(self):
        if C11._worker is None:
            C11._worker = Worker()
        return C11._worker

    def check_case(self, case, ctx):
        cfg = gen.sound_cfg(case)
        kw = gen.kw(cfg)
        tree = gen.build(case['t'])
        m = model.Model.from_cfg(cfg)
        with gen.ModeCtx(cfg):
            spec = optree.tree_structure(tree, **kw)
            ms = m.structure(tree)
            proto = case['proto']
            try:
                blob = pickle.dumps(spec, protocol=proto)
            except Exception as e:  # noqa: BLE001
                ctx.fail('dumps/raises', f'protocol {proto}: {type(e).__name__}: {e}')
                proto = 2
                blob = pickle.dumps(spec, protocol=proto)
            ctx.nontrivial(spec.num_leaves >= 2 and gen.contains_tag(case['t'], ('dict', 'dd', 'od', 'cg', 'cn', 'cs', 'cm', 'cu', 'ci', 'dc', 'partial', 'cq', 'cp')))
            ctx.label(f'proto={case["proto"]}')
            if gen.insertion_mode(cfg):
                ctx.label('made_in_insertion_mode')
            if case['remote'] is None:
                try:
                    in_mode = pickle.loads(blob)
                except Exception as e:  # noqa: BLE001
                    ctx.fail('same_process_in_mode/loads_raises', f'{type(e).__name__}: {e}; spec={spec}')
                else:
                    compare_loaded(in_mode, spec, ms, ctx, 'same_process_in_mode')
        # loaded *outside* the dict-order mode block
        try:
            loaded = pickle.loads(blob)
        except Exception as e:  # noqa: BLE001
            ctx.fail('same_process/loads_raises', f'{type(e).__name__}: {e}; spec={spec}')
            return
        compare_loaded(loaded, spec, ms, ctx, 'same_process')
        # the mode of the *loading* context must not matter either: a spec made with sorted dicts is loaded inside
        # an insertion-ordered block (global, and the spec's own namespace), compared outside it
        if not gen.insertion_mode(cfg):
            for tag, ns_ in (('global', U.GLOBAL),) + ((('own_ns', cfg['ns']),) if cfg['ns'] else ()):
                with optree.dict_insertion_ordered(True, namespace=ns_):
                    try:
                        other = pickle.loads(blob)
                    except Exception as e:  # noqa: BLE001
                        ctx.fail(f'loaded_in_insertion_mode/{tag}/raises', f'{type(e).__name__}: {e}')
                        continue
                compare_loaded(other, spec, ms, ctx, f'loaded_in_insertion_mode/{tag}')
                try:
                    again = pickle.loads(pickle.dumps(other, protocol=proto))
                except Exception as e:  # noqa: BLE001
                    ctx.fail(f'loaded_in_insertion_mode/{tag}/second_round_trip_raises', f'{type(e).__name__}: {e}')
                else:
                    compare_loaded(again, spec, ms, ctx, f'loaded_in_insertion_mode/{tag}/second_round_trip')
            ctx.label('loaded_in_other_mode')
        # treespecs derived from it (children / one-level / composed / rebuilt from a collection) keep the
        # parent's flags and namespace: they must survive the round trip exactly as well
        if case['remote'] is None:
            derived = []
            kids = spec.children()
            for i, (k, km) in enumerate(zip(kids[:3], ms.children[:3])):
                derived.append((f'child{i}', k, km))
            if spec.one_level() is not None and not (ms.kind == 'custom' and ms.type.__name__ == 'partial'):
                # (a one-level partial cannot be rebuilt from leaf tokens: it destructures its children)
                derived.append(('one_level', spec.one_level(), model.shell_of(ms)))
            comp = spec.compose(optree.treespec_leaf(none_is_leaf=cfg['nil']))
            derived.append(('compose_leaf', comp, ms))
            derived.append(('transform_id', spec.transform(lambda x: x), ms))
            for name, d, dm in derived:
                try:
                    back = pickle.loads(pickle.dumps(d, protocol=proto))
                except Exception as e:  # noqa: BLE001
                    ctx.fail(f'derived/{name}/raises', f'{type(e).__name__}: {e}')
                    continue
                compare_loaded(back, d, dm, ctx, f'derived/{name}')
            ctx.label('derived_specs')
        if case['remote'] is None:
            compare_loaded(copy.copy(spec), spec, ms, ctx, 'copy')
            compare_loaded(copy.deepcopy(spec), spec, ms, ctx, 'deepcopy')
            try:
                again = pickle.loads(pickle.dumps(loaded, protocol=proto))
            except Exception as e:  # noqa: BLE001
                ctx.fail('second_round_trip/raises', f'{type(e).__name__}: {e}; spec={spec}')
            else:
                compare_loaded(again, spec, ms, ctx, 'second_round_trip')
            return
        # ---- fresh process
        present = sorted(name for name, (vc, vn) in U.VICTIMS.items()
                         if any(n.kind == 'custom' and n.type is vc and n.reg == (vn, vc) for n in ms.walk()))
        victim = case['victim']
        if present and victim not in present:
            victim = present[len(case['victim']) % len(present)]   # prefer a type the spec mentions
        victim_cls, victim_ns = U.VICTIMS[victim]
        mentions = any(n.kind == 'custom' and n.type is victim_cls and n.reg == (victim_ns, victim_cls) for n in ms.walk())
        ctx.label(f'remote:{case["remote"]}', 'remote_mentions_victim' if mentions else 'remote_no_victim')
        req = {'t': case['t'], 'cfg': cfg, 'blob': base64.b64encode(blob).decode(), 'hist': case['remote'],
               'victim': victim, 'mentions': mentions}
        try:
            ans = self.worker().ask(req)
        except Exception as e:  # noqa: BLE001
            C11._worker = None
            ctx.fail('remote/worker_died', f'{type(e).__name__}: {e}')
            return
        for f in ans['fails']:
            ctx.fail('remote/' + f[0], f[1])

    def extra(self, ctx):
        if C11._worker is not None:
            C11._worker.close()
            C11._worker = None


class _Collect:
    def __init__(self):
        self.fails = []

    def fail(self, o, msg=''):
        self.fails.append((o, str(msg)[:500]))


def worker_main():
    """runs in the fresh interpreter"""
    sys.setrecursionlimit(20000)
    from collections import deque as _dq
    keep = _dq(maxlen=64)          # long-lived treespecs of earlier loads stay alive in a real process
    for line in sys.stdin:
        req = json.loads(line)
        c = _Collect()
        try:
            cfg = req['cfg']
            kw = gen.kw(cfg)
            tree = gen.build(req['t'])
            m = model.Model.from_cfg(cfg)
            blob = base64.b64decode(req['blob'])
            cls, ns = U.VICTIMS[req['victim']]
            hist = req['hist']
            if hist in ('missing', 'rereg'):
                U.unregister(cls, ns)
            try:
                if hist == 'rereg':
                    U.register_again(cls, ns)
                if hist == 'missing':
                    try:
                        got = pickle.loads(blob)
                        if req['mentions']:
                            c.fail('missing_registration_loaded', f'returned {got!r}')
                    except Exception as e:  # noqa: BLE001
                        if not req['mentions']:
                            c.fail('unrelated_unregistration_breaks_load', f'{type(e).__name__}: {e}')
                        elif type(e).__name__ in ('InternalError', 'SystemError'):
                            c.fail('missing_registration_internal_error', f'{type(e).__name__}: {e}')
                else:
                    loaded = pickle.loads(blob)
                    with gen.ModeCtx(cfg):
                        fresh = optree.tree_structure(tree, **kw)
                        ms = m.structure(tree)
                    compare_loaded(loaded, fresh, ms, c, f'fresh_process_{hist}')
                    keep.append(loaded)
                    keep.append(fresh)
            finally:
                if hist == 'missing':
                    U.register_again(cls, ns)
        except Exception as e:  # noqa: BLE001
            import traceback
            c.fail('worker_exception', traceback.format_exc()[-800:])
        sys.stdout.write(json.dumps({'fails': c.fails}) + '\n')
        sys.stdout.flush()


PROP = C11()
if __name__ == '__main__':
    if '--worker' in sys.argv:
        worker_main()
    else:
        runner.main(PROP)
