"""Executable reference model of optree's documented semantics (shares no code with optree).

Written from README ("Tree Nodes and Leaves", "None is non-leaf node vs. None is leaf", "Key
ordering for dictionaries", registry notes) and the docstrings.  The registry consulted here is
the harness' own mirror (universe.MODEL_REGISTRY); optree is never asked.
"""
from __future__ import annotations

from collections import OrderedDict, defaultdict, deque

from vlib import universe as U


def ref_sorted(keys):
    """Documented order: sorted(); else by (type module.qualname, key); else insertion order."""
    keys = list(keys)
    try:
        return sorted(keys)
    except TypeError:
        try:
            return sorted(keys, key=lambda k: (f'{type(k).__module__}.{type(k).__qualname__}', k))
        except TypeError:
            return keys


def is_namedtuple_class(cls):
    return (isinstance(cls, type) and issubclass(cls, tuple)
            and isinstance(getattr(cls, '_fields', None), tuple)
            and all(type(f) is str for f in cls._fields)
            and callable(getattr(cls, '_make', None)) and callable(getattr(cls, '_asdict', None)))


def is_structseq_class(cls):
    return (isinstance(cls, type) and cls.__bases__ == (tuple,)
            and isinstance(getattr(cls, 'n_fields', None), int)
            and isinstance(getattr(cls, 'n_sequence_fields', None), int)
            and isinstance(getattr(cls, 'n_unnamed_fields', None), int)
            and not (cls.__flags__ & (1 << 10)))


class MS:
    """Model treespec node."""

    __slots__ = ('kind', 'type', 'children', 'entries', 'meta', 'orig_keys', 'reg', 'obj')

    def __init__(self, kind, type_=None, children=(), entries=(), meta=None, orig_keys=None,
                 reg=None, obj=None):
        self.kind, self.type = kind, type_
        self.children, self.entries = list(children), list(entries)
        self.meta, self.orig_keys, self.reg, self.obj = meta, orig_keys, reg, obj

    @property
    def is_leaf(self):
        return self.kind == 'leaf'

    # (iterative: pure-Python recursion through C helpers such as sum()/max() hits CPython's C recursion
    #  limit long before the pytree depth limit of 1000)
    def num_leaves(self):
        return sum(1 for n in self.walk() if n.is_leaf)

    def num_nodes(self):
        return sum(1 for _ in self.walk())

    def depth(self):
        best = 0
        stack = [(self, 0)]
        while stack:
            n, d = stack.pop()
            best = max(best, d)
            stack.extend((c, d + 1) for c in n.children)
        return best

    def walk(self):
        stack = [self]
        while stack:
            n = stack.pop()
            yield n
            stack.extend(reversed(n.children))


DICT_KINDS = ('dict', 'od', 'dd')


class Model:
    def __init__(self, nil=False, ns='', pred=None, insertion=False, registry=None):
        self.nil, self.ns, self.pred, self.insertion = nil, ns, pred, insertion
        self.registry = U.MODEL_REGISTRY if registry is None else registry

    @classmethod
    def from_cfg(cls, cfg):
        from vlib import gen
        return cls(cfg['nil'], cfg['ns'], gen.PREDICATES[cfg['pred']], gen.insertion_mode(cfg))

    def lookup(self, t):
        if self.ns and (self.ns, t) in self.registry:
            return (self.ns, t), self.registry[(self.ns, t)]
        if ('', t) in self.registry:
            return ('', t), self.registry[('', t)]
        return None, None

    def one_level(self, x):
        """None for a leaf, else MS without recursion (children are raw objects)."""
        if self.pred is not None and self.pred(x):
            return None
        t = type(x)
        if x is None:
            return None if self.nil else MS('none', type(None))
        if t is tuple:
            return MS('tuple', tuple, list(x), range(len(x)))
        if t is list:
            return MS('list', list, list(x), range(len(x)))
        if t is deque:
            return MS('deque', deque, list(x), range(len(x)), meta=x.maxlen)
        if t is OrderedDict:
            ks = list(x)  # logical (iteration) order
            return MS('od', OrderedDict, [x[k] for k in ks], ks)
        if t is dict or t is defaultdict:
            orig = list(x)
            ks = orig if self.insertion else ref_sorted(orig)
            if t is dict:
                return MS('dict', dict, [x[k] for k in ks], ks, orig_keys=orig)
            return MS('dd', defaultdict, [x[k] for k in ks], ks, meta=x.default_factory,
                      orig_keys=orig)
        key, reg = self.lookup(t)
        if reg is not None:
            out = tuple(reg[0](x))
            ch = list(out[0])
            ent = list(out[2]) if len(out) == 3 and out[2] is not None else list(range(len(ch)))
            return MS('custom', t, ch, ent, meta=out[1], reg=key)
        if is_structseq_class(t):
            return MS('ss', t, list(x), range(len(x)), meta=t)
        if is_namedtuple_class(t):
            return MS('nt', t, list(x), range(len(x)), meta=t)
        return None

    def flatten(self, x, path=()):
        """-> (leaves, paths, MS)"""
        node = self.one_level(x)
        if node is None:
            return [x], [path], MS('leaf', obj=x)
        node.obj = x
        leaves, paths, kids = [], [], []
        for c, e in zip(node.children, node.entries):
            l, p, s = self.flatten(c, path + (e,))
            leaves += l
            paths += p
            kids.append(s)
        node.children = kids
        return leaves, paths, node

    def structure(self, x):
        return self.flatten(x)[2]


# ---------------------------------------------------------------- structural relations on MS

def meta_eq(a, b):
    try:
        return bool(a == b)
    except Exception:  # noqa: BLE001
        return a is b


def spec_eq(a: MS, b: MS) -> bool:
    """Documented treespec equality: same node type, arity, key list / metadata, leaves."""
    if a.kind != b.kind:
        return False
    if a.is_leaf:
        return True
    if len(a.children) != len(b.children):
        return False
    if a.kind in DICT_KINDS:
        if a.entries != b.entries:  # flatten order (sorted or insertion / OrderedDict order)
            return False
        if a.kind == 'dd' and not meta_eq(a.meta, b.meta):
            return False
    elif a.kind == 'deque':
        if a.meta != b.meta:
            return False
    elif a.kind in ('nt', 'ss'):
        if a.type is not b.type:
            return False
    elif a.kind == 'custom':
        if a.type is not b.type or a.reg != b.reg or not meta_eq(a.meta, b.meta):
            return False
    return all(spec_eq(x, y) for x, y in zip(a.children, b.children))


def _dict_align(a: MS, b: MS):
    """children of b re-ordered to a's key order, or None if key sets differ"""
    if len(a.entries) != len(b.entries):
        return None
    idx = {}
    for i, k in enumerate(b.entries):
        idx[k] = i
    out = []
    for k in a.entries:
        if k not in idx:
            return None
        out.append(b.children[idx[k]])
    return out


def node_match(a: MS, b: MS):
    """One-level prefix compatibility of two internal nodes -> aligned b-children or None."""
    if a.kind in DICT_KINDS:
        if b.kind not in DICT_KINDS:
            return None
        return _dict_align(a, b)
    if a.kind != b.kind or len(a.children) != len(b.children):
        return None
    if a.kind in ('nt', 'ss') and a.type is not b.type:
        return None
    if a.kind == 'custom' and (a.type is not b.type or a.reg != b.reg or not meta_eq(a.meta, b.meta)):
        return None
    return list(b.children)


def spec_prefix(a: MS, b: MS) -> bool:
    if a.is_leaf:
        return True
    if b.is_leaf:
        return False
    kids = node_match(a, b)
    if kids is None:
        return False
    return all(spec_prefix(x, y) for x, y in zip(a.children, kids))


def strictly_extends(a: MS, b: MS) -> bool:
    """given a <= b: does b have a non-leaf node where a has a leaf?"""
    if a.is_leaf:
        return not b.is_leaf
    kids = node_match(a, b)
    return any(strictly_extends(x, y) for x, y in zip(a.children, kids))


class Conflict(Exception):
    pass


def spec_lub(a: MS, b: MS) -> MS:
    """Least common suffix with a's node types / key order; raises Conflict."""
    if a.is_leaf:
        return b
    if b.is_leaf:
        return a
    if a.kind == 'none':
        if b.kind != 'none':
            raise Conflict
        return a
    kids = node_match(a, b)
    if kids is None:
        raise Conflict
    return MS(a.kind, a.type, [spec_lub(x, y) for x, y in zip(a.children, kids)], a.entries,
              a.meta, a.orig_keys, a.reg)


def paths_of(s: MS, prefix=()):
    if s.is_leaf:
        return [prefix]
    out = []
    for e, c in zip(s.entries, s.children):
        out += paths_of(c, prefix + (e,))
    return out


# ---------------------------------------------------------------- navigating real trees by path

def child_by_entry(model: Model, obj, entry):
    node = model.one_level(obj)
    if node is None:
        raise KeyError(f'{obj!r} is a leaf')
    for e, c in zip(node.entries, node.children):
        if e is entry or e == entry:
            return c
    raise KeyError(entry)


def navigate(model: Model, obj, path):
    for e in path:
        obj = child_by_entry(model, obj, e)
    return obj


# ---------------------------------------------------------------- exact structural equality of trees

def same_tree(a, b, leaf_eq=None) -> str | None:
    """Exact structural equality (not ==): returns None when same, else a description.

    type identity per node, key *order*, maxlen, default_factory identity, namedtuple class,
    custom fields/metadata, leaves by `is` (or leaf_eq).
    """
    leaf_eq = leaf_eq or (lambda x, y: x is y)

    def rec(x, y, where):
        if type(x) is not type(y):
            return f'{where}: type {type(x).__name__} vs {type(y).__name__}'
        t = type(x)
        if t in (tuple, list, deque) or (t is not tuple and isinstance(x, tuple)
                                         and (is_namedtuple_class(t) or is_structseq_class(t))):
            if t is deque and x.maxlen != y.maxlen:
                return f'{where}: maxlen {x.maxlen} vs {y.maxlen}'
            if len(x) != len(y):
                return f'{where}: len {len(x)} vs {len(y)}'
            for i, (p, q) in enumerate(zip(x, y)):
                r = rec(p, q, f'{where}[{i}]')
                if r:
                    return r
            return None
        if t in (dict, OrderedDict, defaultdict):
            kx, ky = list(x), list(y)
            if len(kx) != len(ky) or any(not (p is q or p == q) for p, q in zip(kx, ky)):
                return f'{where}: key order {kx!r} vs {ky!r}'
            if t is defaultdict and x.default_factory is not y.default_factory:
                return f'{where}: default_factory {x.default_factory!r} vs {y.default_factory!r}'
            for k in kx:
                r = rec(x[k], y[k], f'{where}[{k!r}]')
                if r:
                    return r
            return None
        if t in U.CUSTOM_CLASSES:
            if t.__name__ == 'partial':
                if x.func is not y.func and x.func != y.func:
                    return f'{where}: partial func differs'
                r = rec(tuple(x.args), tuple(y.args), where + '.args')
                return r or rec(dict(x.keywords), dict(y.keywords), where + '.keywords')
            fx, mx = x._v_fields()
            fy, my = y._v_fields()
            if not meta_eq(mx[1], my[1]) or type(mx[1]) is not type(my[1]):
                return f'{where}: custom metadata {mx!r} vs {my!r}'
            if len(fx) != len(fy):
                return f'{where}: custom field count'
            for (n1, v1), (n2, v2) in zip(fx, fy):
                if n1 != n2:
                    return f'{where}: custom field {n1!r} vs {n2!r}'
                r = rec(v1, v2, f'{where}.{n1}')
                if r:
                    return r
            return None
        if x is None:
            return None
        return None if leaf_eq(x, y) else f'{where}: leaf {x!r} vs {y!r}'

    return rec(a, b, '$')


def containers_of(tree):
    """All mutable containers / universe nodes reachable in a tree (for 'new containers' checks)."""
    out = []

    def rec(x):
        t = type(x)
        if t in (list, dict, OrderedDict, defaultdict, deque) or t in U.CUSTOM_CLASSES:
            out.append(x)
        if t in (tuple, list, deque) or (isinstance(x, tuple) and t is not U.TupleSub
                                         and (is_namedtuple_class(t) or is_structseq_class(t))):
            for c in x:
                rec(c)
        elif t in (dict, OrderedDict, defaultdict):
            for c in x.values():
                rec(c)
        elif t in U.CUSTOM_CLASSES:
            if t.__name__ == 'partial':
                for c in x.args:
                    rec(c)
                for c in x.keywords.values():
                    rec(c)
            else:
                for _n, v in x._v_fields()[0]:
                    rec(v)

    rec(tree)
    return out


# ---------------------------------------------------------------- documented repr notation

def render(s: MS, nil=False, ns='') -> str:
    def r(n: MS) -> str:
        k = n.kind
        kids = [r(c) for c in n.children]
        if k == 'leaf':
            return '*'
        if k == 'none':
            return 'None'
        if k == 'tuple':
            return '(' + ', '.join(kids) + (',' if len(kids) == 1 else '') + ')'
        if k == 'list':
            return '[' + ', '.join(kids) + ']'
        if k == 'dict':
            return '{' + ', '.join(f'{e!r}: {c}' for e, c in zip(n.entries, kids)) + '}'
        if k == 'od':
            inner = '{' + ', '.join(f'{e!r}: {c}' for e, c in zip(n.entries, kids)) + '}'
            return 'OrderedDict(' + (inner if kids else '') + ')'
        if k == 'dd':
            return (f'defaultdict({n.meta!r}, {{'
                    + ', '.join(f'{e!r}: {c}' for e, c in zip(n.entries, kids)) + '})')
        if k == 'deque':
            return 'deque([' + ', '.join(kids) + ']' + (f', maxlen={n.meta!r}' if n.meta is not None else '') + ')'
        if k == 'nt':
            return n.type.__name__ + '(' + ', '.join(f'{f}={c}' for f, c in zip(n.type._fields, kids)) + ')'
        if k == 'ss':
            mod = n.type.__module__
            prefix = '' if mod in ('', '__main__', 'builtins', '__builtins__') else mod + '.'
            fields = [name for name, m in vars(n.type).items()
                      if type(m).__name__ == 'member_descriptor'][: n.type.n_sequence_fields]
            return prefix + n.type.__qualname__ + '(' + ', '.join(f'{f}={c}' for f, c in zip(fields, kids)) + ')'
        if k == 'custom':
            return f'CustomTreeNode({n.type.__name__}[{n.meta!r}], [' + ', '.join(kids) + '])'
        raise AssertionError(k)

    out = 'PyTreeSpec(' + r(s)
    if nil:
        out += ', NoneIsLeaf'
    if ns:
        out += f', namespace={ns!r}'
    return out + ')'


# ---------------------------------------------------------------- model unflatten

def rebuild(ms: MS, leaves_iter, registry=None):
    """Build a tree of the shape described by `ms` from an iterator of leaves (documented
    reconstruction rules: original dict key order, deque maxlen, defaultdict factory,
    namedtuple / struct sequence class, custom unflatten function)."""
    registry = U.MODEL_REGISTRY if registry is None else registry
    k = ms.kind
    if k == 'leaf':
        return next(leaves_iter)
    kids = [rebuild(c, leaves_iter, registry) for c in ms.children]
    if k == 'none':
        return None
    if k == 'tuple':
        return tuple(kids)
    if k == 'list':
        return kids
    if k == 'deque':
        return deque(kids, maxlen=ms.meta)
    if k == 'od':
        return OrderedDict(zip(ms.entries, kids))
    if k in ('dict', 'dd'):
        by_key = dict(zip(ms.entries, kids))
        d = {key: by_key[key] for key in ms.orig_keys}
        return d if k == 'dict' else defaultdict(ms.meta, d)
    if k == 'nt':
        return ms.type(*kids)
    if k == 'ss':
        return ms.type(kids)
    if k == 'custom':
        return registry[ms.reg][1](ms.meta, tuple(kids))
    raise AssertionError(k)


def postorder_nodes(ms: MS):
    """internal nodes in post-order (children before parents, left to right)"""
    out = []
    for c in ms.children:
        out += postorder_nodes(c)
    if not ms.is_leaf:
        out.append(ms)
    return out


def node_data_of(ms: MS):
    """documented node_data handed to PyTreeSpec.walk's f_node"""
    k = ms.kind
    if k in ('dict', 'od'):
        return list(ms.entries)
    if k == 'dd':
        return (ms.meta, list(ms.entries))
    if k == 'deque':
        return ms.meta
    if k in ('nt', 'ss'):
        return ms.type
    if k == 'custom':
        return ms.meta
    return None


# ---------------------------------------------------------------- broadcasting (reference)

def fill(shape: MS, leaf):
    import itertools
    return rebuild(shape, itertools.repeat(leaf))


def shell_of(node: MS, n=None):
    n = len(node.children) if n is None else n
    return MS(node.kind, node.type, [MS('leaf')] * n, node.entries, node.meta, node.orig_keys, node.reg)


def broadcast_tree(src: MS, shape: MS):
    """src (a model structure whose leaves carry .obj) is a prefix of shape: replicate every src
    leaf over the sub-shape found at its position, keeping src's own node types / key order."""
    if src.is_leaf:
        return fill(shape, src.obj)
    kids = node_match(src, shape)
    if kids is None:
        raise Conflict
    return rebuild(shell_of(src), iter([broadcast_tree(x, y) for x, y in zip(src.children, kids)]))
