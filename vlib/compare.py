"""Comparing engine objects (PyTreeSpec, paths, accessors) with the reference model."""
from __future__ import annotations

import optree

from vlib import model

K = optree.PyTreeKind
KIND = {
    'leaf': K.LEAF, 'none': K.NONE, 'tuple': K.TUPLE, 'list': K.LIST, 'dict': K.DICT,
    'od': K.ORDEREDDICT, 'dd': K.DEFAULTDICT, 'deque': K.DEQUE, 'nt': K.NAMEDTUPLE,
    'ss': K.STRUCTSEQUENCE, 'custom': K.CUSTOM,
}


def key_same(a, b):
    return a is b or (type(a) is type(b) and a == b)


def path_same(p, q):
    return len(p) == len(q) and all(key_same(a, b) for a, b in zip(p, q))


def paths_same(ps, qs):
    return len(ps) == len(qs) and all(path_same(tuple(p), tuple(q)) for p, q in zip(ps, qs))


def spec_vs_model(spec, ms: model.MS, where='$') -> str | None:
    """Walk the engine treespec through its public inspection API and compare with the model."""
    if spec.kind != KIND[ms.kind]:
        return f'{where}: kind {spec.kind} vs model {ms.kind}'
    if ms.kind == 'leaf':
        if spec.type is not None or spec.num_children != 0 or spec.num_leaves != 1 or spec.num_nodes != 1:
            return f'{where}: leaf spec inconsistent {spec!r}'
        return None
    if spec.type is not ms.type:
        return f'{where}: type {spec.type} vs model {ms.type}'
    if spec.num_children != len(ms.children):
        return f'{where}: arity {spec.num_children} vs model {len(ms.children)}'
    if spec.num_leaves != ms.num_leaves() or spec.num_nodes != ms.num_nodes():
        return (f'{where}: counts leaves {spec.num_leaves}/{ms.num_leaves()} '
                f'nodes {spec.num_nodes}/{ms.num_nodes()}')
    ent = spec.entries()
    if not path_same(tuple(ent), tuple(ms.entries)):
        return f'{where}: entries {ent!r} vs model {ms.entries!r}'
    kids = spec.children()
    if len(kids) != len(ms.children):
        return f'{where}: children() length {len(kids)}'
    for e, c, m in zip(ms.entries, kids, ms.children):
        r = spec_vs_model(c, m, f'{where}/{e!r}')
        if r:
            return r
    return None


def leafsig(x):
    """Value signature of a leaf for comparing leaves of two separately built trees
    (insensitive to dict insertion order, which is exactly what permutation checks vary)."""
    from collections import OrderedDict, defaultdict, deque
    t = type(x)
    if t in (dict, defaultdict) or (isinstance(x, dict) and t is not OrderedDict and not isinstance(x, OrderedDict)):
        return (t.__name__, tuple(sorted(((repr(k), leafsig(v)) for k, v in x.items()), key=repr)))
    if isinstance(x, OrderedDict):
        return (t.__name__, tuple((repr(k), leafsig(v)) for k, v in x.items()))
    if isinstance(x, (list, tuple, deque)):
        return (t.__name__, tuple(leafsig(v) for v in x))
    if hasattr(x, '_v_fields'):
        f, m = x._v_fields()
        return (t.__name__, tuple((n, leafsig(v)) for n, v in f), repr(m))
    return (t.__name__, repr(x))


def same_leaves(a, b):
    return len(a) == len(b) and all(x is y for x, y in zip(a, b))
